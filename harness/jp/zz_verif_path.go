package jp

import (
	"github.com/ohler55/ojg/internal/vref"
	"github.com/ohler55/ojg/internal/vx"
)

// ---- concrete data shapes with distinct leaves ----

const numShapes = 8

// shapeOrder lists the shapes most useful first (NSHAPES bounds the quick tiers).
var shapeOrder = [...]int{0, 3, 2, 5, 7, 4, 6, 1}

func chooseShape() int {
	n := vx.Param("NSHAPES", numShapes)
	return shapeOrder[vx.Choose("data", n)]
}

func mkData(shape int) any {
	switch shape {
	case 0:
		return []any{int64(10), int64(11), int64(12), int64(13)}
	case 1:
		return []any{}
	case 2:
		return map[string]any{"a": int64(10), "b": []any{int64(20), int64(21), int64(22)}}
	case 3:
		return []any{[]any{int64(10), int64(11)}, []any{int64(20), int64(21), int64(22)}, []any{}}
	case 4:
		return map[string]any{
			"a": map[string]any{"a": int64(1), "b": []any{int64(5), int64(6)}},
			"b": []any{map[string]any{"a": int64(7)}, int64(8)},
		}
	case 5:
		return []any{
			map[string]any{"a": int64(1), "b": int64(2)},
			map[string]any{"a": int64(3)},
			map[string]any{"b": int64(4), "a": int64(5)},
		}
	case 7:
		// a member that only exists two container levels below an array
		return []any{map[string]any{"a": map[string]any{"c": int64(30), "b": []any{int64(31)}}}, int64(32)}
	}
	return []any{int64(1), []any{int64(2), int64(3), int64(4), int64(5), int64(6)}, "x", nil, true}
}

// fragment kinds the harness can put at a position
const (
	kChild = iota
	kNth
	kWild
	kSlice1
	kSlice2
	kSlice3
	kUnionInts
	kUnionKeys
	kFilter
	kDescent
	numKinds
)

var kindNames = [...]string{"child", "nth", "wild", "slice1", "slice2", "slice3", "union-int", "union-key", "filter", "descent"}

// bounded returns a symbolic int in [-b, b].
func bounded(tag string, b int) int {
	return vx.IntIn(tag, -b, b)
}

// addFrag appends a fragment of the given kind (with symbolic numbers and
// keys) to both the ojg expression and the reference path.
func addFrag(x Expr, rf []vref.PFrag, kind int) (Expr, []vref.PFrag) {
	B := vx.Param("B", 6)
	switch kind {
	case kChild:
		k := string([]byte{vx.Byte("key")})
		return x.C(k), append(rf, vref.PFrag{Kind: vref.FChild, Key: k})
	case kNth:
		var i int
		if nb := vx.Param("NTHB", 0); nb > 0 {
			i = vx.IntIn("nth", -nb, nb)
		} else {
			i = vx.Int("nth")
		}
		return x.N(i), append(rf, vref.PFrag{Kind: vref.FNth, N: i})
	case kWild:
		return x.W(), append(rf, vref.PFrag{Kind: vref.FWild})
	case kSlice1:
		s := bounded("start", B)
		return x.S(s), append(rf, vref.PFrag{Kind: vref.FSlice, Slice: []int{s}})
	case kSlice2:
		s, e := bounded("start", B), bounded("end", B)
		return x.S(s, e), append(rf, vref.PFrag{Kind: vref.FSlice, Slice: []int{s, e}})
	case kSlice3:
		s, e, t := bounded("start", B), bounded("end", B), bounded("step", vx.Param("STEP", 3))
		return x.S(s, e, t), append(rf, vref.PFrag{Kind: vref.FSlice, Slice: []int{s, e, t}})
	case kUnionInts:
		a, b := bounded("u", B), bounded("u", B)
		return x.U(a, b), append(rf, vref.PFrag{Kind: vref.FUnion, Union: []any{a, b}})
	case kUnionKeys:
		a, b := string([]byte{vx.Byte("key")}), string([]byte{vx.Byte("key")})
		return x.U(a, b), append(rf, vref.PFrag{Kind: vref.FUnion, Union: []any{a, b}})
	case kFilter:
		c := vx.Int64("fc")
		pred := func(v any) bool {
			m, ok := v.(map[string]any)
			if !ok {
				return false
			}
			a, has := m["a"]
			if !has {
				return false
			}
			ai, ok := a.(int64)
			return ok && ai > c
		}
		return x.F(Gt(Get(A().C("a")), ConstInt(c))), append(rf, vref.PFrag{Kind: vref.FFilter, Filter: pred})
	case kDescent:
		return x.D(), append(rf, vref.PFrag{Kind: vref.FDescent})
	}
	return x, rf
}

// simple fragment kinds used around the fragment under test
var simpleKinds = [...]int{kWild, kChild, kNth}

// buildPath chooses the path form: the fragment under test (any kind) alone,
// in inner position (followed by a simple fragment), in last position (after
// a simple fragment), and - FULL=1 - between two simple fragments or paired
// with any other kind.
func buildPath() (Expr, []vref.PFrag, string) {
	forms := 3
	if vx.Param("FULL", 0) == 1 {
		forms = 5
	}
	form := vx.Choose("form", forms)
	var kinds []int
	k := vx.Choose("kind", numKinds)
	switch form {
	case 0:
		kinds = []int{k}
	case 1:
		kinds = []int{k, simpleKinds[vx.Choose("after", len(simpleKinds))]}
	case 2:
		kinds = []int{simpleKinds[vx.Choose("before", len(simpleKinds))], k}
	case 3:
		kinds = []int{simpleKinds[vx.Choose("before", len(simpleKinds))], k, simpleKinds[vx.Choose("after", len(simpleKinds))]}
	case 4:
		kinds = []int{k, vx.Choose("kind2", numKinds)}
	}
	x := R()
	var rf []vref.PFrag
	desc := ""
	for i, kk := range kinds {
		x, rf = addFrag(x, rf, kk)
		if i > 0 {
			desc += "."
		}
		desc += kindNames[kk]
	}
	return x, rf, desc
}

// sliceCase classifies the slice fragments of a path relative to the arrays
// of the data (only called on failing paths: it forks on the symbolic
// bounds). The classes are: step sign, |step| >= 2, and whether the
// normalized range is empty for some array length 0..5.
func sliceCase(rf []vref.PFrag) string {
	out := ""
	for _, f := range rf {
		if f.Kind != vref.FSlice {
			continue
		}
		step := 1
		if len(f.Slice) > 2 {
			step = f.Slice[2]
		}
		c := "pos"
		if step < 0 {
			c = "neg"
		} else if step == 0 {
			c = "zero"
		}
		if step >= 2 || step <= -2 {
			c += ",big"
		} else {
			c += ",one"
		}
		empty := false
		for n := 1; n <= 5; n++ {
			idx, ok := vref.SliceIndexes(f.Slice, n)
			if ok && len(idx) == 0 {
				empty = true
			}
		}
		if empty {
			c += ",empty-for-some-len"
		} else {
			c += ",never-empty"
		}
		if out != "" {
			out += ";"
		}
		out += c
	}
	return out
}

// VerifC05_Get: Get against the reference selector for every data shape,
// every fragment kind in every position (1..MAXF fragments), symbolic
// indexes / bounds / keys / filter constants.
func VerifC05_Get() {
	shape := chooseShape()
	data := mkData(shape)
	x, rf, desc := buildPath()
	vx.Key("data", shape)
	vx.Key("path", desc)
	var got []any
	pan := vx.Catch(func() { got = x.Get(data) })
	vx.Assert("no-panic:Get", !pan)
	if pan {
		return
	}
	sel := vref.Select(rf, mkData(shape))
	vx.Observe("n", len(got))
	if sel.Unspecified {
		vx.Cover("unspecified", true)
		return
	}
	ok := vref.SameValues(sel, got)
	if !ok {
		vx.Key("slice", sliceCase(rf))
	}
	vx.Assert("get-equals-reference", ok)
	vx.Cover("nonempty", len(got) > 0)
	vx.Cover("empty", len(got) == 0)
}
