package jp

import (
	"unicode/utf8"

	"github.com/ohler55/ojg/internal/vx"
)

// fragEqual compares two fragments structurally (keys bytewise).
func fragEqual(a, b Frag) bool {
	switch ta := a.(type) {
	case Child:
		tb, ok := b.(Child)
		return ok && len(ta) == len(tb) && vx.StrEq(string(ta), string(tb))
	case Nth:
		tb, ok := b.(Nth)
		return vx.And(ok, ta == tb)
	case *Filter:
		// compared by its printed form and by evaluation (see VerifC14_Keys)
		_, ok := b.(*Filter)
		return ok
	case Root:
		_, ok := b.(Root)
		return ok
	case At:
		_, ok := b.(At)
		return ok
	case Wildcard:
		_, ok := b.(Wildcard)
		return ok
	case Descent:
		_, ok := b.(Descent)
		return ok
	case Slice:
		tb, ok := b.(Slice)
		if !ok || len(ta) != len(tb) {
			return false
		}
		eq := true
		for i := range ta {
			eq = vx.And(eq, ta[i] == tb[i])
		}
		return eq
	case Union:
		tb, ok := b.(Union)
		if !ok || len(ta) != len(tb) {
			return false
		}
		eq := true
		for i := range ta {
			switch ua := ta[i].(type) {
			case string:
				ub, ok := tb[i].(string)
				eq = vx.And(eq, ok && len(ua) == len(ub) && vx.StrEq(ua, ub))
			case int64:
				ub, ok := tb[i].(int64)
				eq = vx.And(eq, vx.And(ok, ua == ub))
			case int:
				ub, ok := tb[i].(int64)
				eq = vx.And(eq, vx.And(ok, int64(ua) == ub))
			default:
				return false
			}
		}
		return eq
	}
	return false
}

func exprEqual(a, b Expr) bool {
	if len(a) != len(b) {
		return false
	}
	eq := true
	for i := range a {
		eq = vx.And(eq, fragEqual(a[i], b[i]))
	}
	return eq
}

// roundTrip prints x (dot or bracket form), parses the text back and
// asserts: parse succeeds, prints identically, is fragment-wise equal.
func roundTrip(x Expr, bracket bool) (y Expr, ok bool) {
	var text string
	pan := vx.Catch(func() {
		if bracket {
			text = x.BracketString()
		} else {
			text = x.String()
		}
	})
	vx.Assert("no-panic:String", !pan)
	if pan {
		return nil, false
	}
	var err error
	pan = vx.Catch(func() { y, err = ParseString(text) })
	vx.Assert("no-panic:Parse", !pan)
	if pan {
		return nil, false
	}
	vx.Observe("parse-err", err != nil)
	vx.Assert("printed-form-parses", err == nil)
	if err != nil {
		return nil, false
	}
	vx.Assert("reparsed-equal", exprEqual(x, y))
	var text2 string
	if bracket {
		text2 = y.BracketString()
	} else {
		text2 = y.String()
	}
	vx.Assert("prints-identically", len(text) == len(text2) && vx.StrEq(text, text2))
	return y, true
}

// float constants whose shortest decimal form needs more than float32
// precision, a large and a tiny magnitude, and two short ones
var c14Floats = [...]float64{0.5, 0.30000000000000004, 16777217.5, 1e300, 5e-320, -2.25}

// VerifC14_Keys: Child(k) for every key of <= K symbolic bytes in every
// position (first, after root, after a child, after a descent, in a union),
// dot and bracket printing.
func VerifC14_Keys() {
	pos := vx.Choose("pos", 8)
	bracket := vx.Choose("bracket", 2) == 1
	n := vx.Choose("klen", vx.Param("K", 2)+1)
	k := vx.String("key", n)
	// keys are text: byte strings that are not valid UTF-8 are outside the claim
	vx.Assume(utf8.ValidString(k))
	vx.Key("pos", pos)
	vx.Key("bracket", bracket)
	vx.Key("klen", n)
	var x Expr
	var fconst float64
	switch pos {
	case 0:
		x = C(k)
	case 1:
		x = R().C(k)
	case 2:
		x = R().C("a").C(k)
	case 3:
		x = R().D().C(k)
	case 4:
		x = R().U(k, "z")
	case 5: // the key as a string constant of a filter
		x = R().F(Eq(Get(A().C("a")), ConstString(k)))
	case 6: // the key inside the sub-path of a filter
		x = R().F(Eq(Get(A().C(k)), ConstInt(1)))
	case 7: // a float constant (concrete menu) in a filter; the key is not used
		if n != 0 {
			vx.Assume(false)
		}
		fconst = c14Floats[vx.Choose("float", len(c14Floats))]
		x = R().F(Eq(Get(A().C("a")), ConstFloat(fconst)))
	}
	y, ok := roundTrip(x, bracket)
	if ok && pos >= 5 {
		// the re-parsed filter selects what the original selects
		var data any
		if pos == 7 {
			data = []any{map[string]any{"a": fconst}, map[string]any{"a": "x"}}
		} else if pos == 5 {
			data = []any{map[string]any{"a": k}, map[string]any{"a": k + "~"}, map[string]any{"a": int64(1)}}
		} else {
			data = []any{map[string]any{k: int64(1)}, map[string]any{k + "~": int64(1)}, map[string]any{k: int64(2)}}
		}
		var n0, n1 int
		pan := vx.Catch(func() { n0, n1 = len(x.Get(data)), len(y.Get(data)) })
		vx.Assert("no-panic:Get", !pan)
		if !pan {
			vx.Assert("reparsed-filter-evaluates-identically", vx.And(n0 == 1, n1 == 1))
		}
	}
	vx.Cover("done", true)
}

// VerifC14_Numbers: Nth, Slice and integer unions with symbolic ints.
func VerifC14_Numbers() {
	kind := vx.Choose("kind", 5)
	bracket := vx.Choose("bracket", 2) == 1
	B := vx.Param("NB", 99999)
	vx.Key("kind", kind)
	vx.Key("bracket", bracket)
	first := true
	num := func(tag string) int {
		// boundary values concretely (first number only), everything else symbolic within [-B,B]
		if !first {
			return vx.IntIn(tag, -B, B)
		}
		first = false
		switch vx.Choose(tag+"-case", 4) {
		case 0:
			return vx.IntIn(tag, -B, B)
		case 1:
			return -1 << 63
		case 2:
			return 1<<63 - 1
		}
		return 0
	}
	var x Expr
	switch kind {
	case 0:
		x = R().N(num("n"))
	case 1:
		x = R().C("a").N(num("n")).C("b")
	case 2:
		x = R().S(num("s"), num("e"))
	case 3:
		x = R().S(num("s"), num("e"), num("t"))
	case 4:
		x = R().U(num("u"), "k", num("u"))
	}
	roundTrip(x, bracket)
	vx.Cover("done", true)
}

// ---- equations ----

type eqBuilder struct {
	budget int
	leaf   int
	bleaf  int
	desc   string
}

// intExpr builds an integer-valued equation: leaves rotate through @.a,
// @.b, @.c and a symbolic constant (no choice), operators + - *.
func (b *eqBuilder) intExpr() *Equation {
	c := 1
	if b.budget > 0 {
		c = 4
		if vx.Param("SLIM", 0) == 1 {
			c = 3 // quick tier: leaf, +, - ... see below: '+' is dropped, '-' and '*' kept
		}
	}
	ch := vx.Choose("int", c)
	if c == 3 && ch > 0 {
		ch++ // skip '+' (same precedence as '-')
	}
	switch ch {
	case 0:
		b.leaf++
		switch b.leaf % 4 {
		case 1:
			b.desc += "a"
			return Get(A().C("a"))
		case 2:
			b.desc += "b"
			return Get(A().C("b"))
		case 3:
			b.desc += "k"
			return ConstInt(int64(vx.IntIn("k", -8, 7)))
		}
		b.desc += "c"
		return Get(A().C("c"))
	case 1:
		b.budget--
		b.desc += "(+ "
		l := b.intExpr()
		b.desc += " "
		r := b.intExpr()
		b.desc += ")"
		return Add(l, r)
	case 2:
		b.budget--
		b.desc += "(- "
		l := b.intExpr()
		b.desc += " "
		r := b.intExpr()
		b.desc += ")"
		return Sub(l, r)
	}
	b.budget--
	b.desc += "(* "
	l := b.intExpr()
	b.desc += " "
	r := b.intExpr()
	b.desc += ")"
	return Multiply(l, r)
}

// boolLeaf is a boolean-valued member (@.p, @.q alternating).
func (b *eqBuilder) boolLeaf() *Equation {
	b.bleaf++
	if b.bleaf%2 == 1 {
		b.desc += "p"
		return Get(A().C("p"))
	}
	b.desc += "q"
	return Get(A().C("q"))
}

// boolExpr builds a boolean equation: boolean members, comparisons of int
// expressions, && || !.
func (b *eqBuilder) boolExpr() *Equation {
	if b.budget <= 0 {
		return b.boolLeaf()
	}
	bch := 0
	if vx.Param("SLIM", 0) == 1 {
		// quick tier: == && || leaf ! (the other comparisons share =='s precedence)
		bch = [...]int{0, 3, 4, 5, 6}[vx.Choose("bool", 5)]
	} else {
		bch = vx.Choose("bool", 7)
	}
	switch bch {
	case 0:
		b.budget--
		b.desc += "(== "
		l := b.intExpr()
		b.desc += " "
		r := b.intExpr()
		b.desc += ")"
		return Eq(l, r)
	case 1:
		b.budget--
		b.desc += "(< "
		l := b.intExpr()
		b.desc += " "
		r := b.intExpr()
		b.desc += ")"
		return Lt(l, r)
	case 2:
		b.budget--
		b.desc += "(>= "
		l := b.intExpr()
		b.desc += " "
		r := b.intExpr()
		b.desc += ")"
		return Gte(l, r)
	case 3:
		b.budget--
		b.desc += "(&& "
		l := b.boolExpr()
		b.desc += " "
		r := b.boolExpr()
		b.desc += ")"
		return And(l, r)
	case 4:
		b.budget--
		b.desc += "(|| "
		l := b.boolExpr()
		b.desc += " "
		r := b.boolExpr()
		b.desc += ")"
		return Or(l, r)
	case 5:
		return b.boolLeaf()
	}
	b.budget--
	b.desc += "(! "
	l := b.boolExpr()
	b.desc += ")"
	return Not(l)
}

// VerifC14_Equations: every typed equation tree with up to OPS operators:
// its printed form parses, prints identically, and evaluates identically
// on an element with symbolic a, b, c (the solver searches for operand
// values that tell the original from the re-parsed tree).
func VerifC14_Equations() {
	b := &eqBuilder{budget: vx.Param("OPS", 3)}
	var eq *Equation
	switch vx.Choose("root", 3) {
	case 0:
		eq = b.boolExpr()
	case 2:
		// constant first: the integer expression ends the text
		b.desc += "(== k "
		k := ConstInt(int64(vx.IntIn("k", -8, 7)))
		r := b.intExpr()
		b.desc += ")"
		eq = Eq(k, r)
	default:
		// an integer expression (compared with a constant so that it can be a filter)
		b.desc += "(== "
		l := b.intExpr()
		b.desc += " k)"
		eq = Eq(l, ConstInt(int64(vx.IntIn("k", -8, 7))))
	}
	vx.Key("tree", b.desc)
	var text string
	pan := vx.Catch(func() { text = eq.String() })
	vx.Assert("no-panic:String", !pan)
	if pan {
		return
	}
	var eq2 *Equation
	pan = vx.Catch(func() { eq2 = MustParseEquation(text) })
	vx.Assert("printed-form-parses", !pan)
	if pan {
		return
	}
	text2 := eq2.String()
	vx.Assert("prints-identically", len(text) == len(text2) && vx.StrEq(text, text2))
	elem := map[string]any{
		"a": int64(vx.IntIn("a", -4, 3)),
		"b": int64(vx.IntIn("b", -4, 3)),
		"c": int64(vx.IntIn("c", -4, 3)),
		"p": vx.Bool("p"),
		"q": vx.Bool("q"),
	}
	r1, p1 := evalFilter(eq, elem)
	r2, p2 := evalFilter(eq2, elem)
	vx.Assert("no-panic:eval", vx.And(!p1, !p2))
	if p1 || p2 {
		return
	}
	vx.Observe("r1", r1)
	vx.Assert("evaluates-identically", r1 == r2)
	// the same through the Filter / Script printer (a different code path
	// from Equation.String) and the path parser
	x := R().F(eq)
	var ftext string
	pan = vx.Catch(func() { ftext = x.String() })
	vx.Assert("no-panic:String", !pan)
	if pan {
		return
	}
	var y Expr
	var err error
	pan = vx.Catch(func() { y, err = ParseString(ftext) })
	vx.Assert("filter-form-parses", vx.And(!pan, err == nil))
	if pan || err != nil {
		return
	}
	ftext2 := y.String()
	vx.Assert("filter-prints-identically", len(ftext) == len(ftext2) && vx.StrEq(ftext, ftext2))
	var g1, g2 []any
	pan = vx.Catch(func() { g1 = x.Get([]any{elem}); g2 = y.Get([]any{elem}) })
	vx.Assert("no-panic:eval", !pan)
	if !pan {
		vx.Assert("filter-evaluates-identically", len(g1) == len(g2))
	}
	vx.Cover("true", r1)
	vx.Cover("false", !r1)
}
