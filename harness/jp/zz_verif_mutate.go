package jp

import (
	"github.com/ohler55/ojg/alt"
	"github.com/ohler55/ojg/gen"
	"github.com/ohler55/ojg/internal/vref"
	"github.com/ohler55/ojg/internal/vx"
)

const (
	opSet = iota
	opSetOne
	opDel
	opDelOne
	opRemove
	opRemoveOne
	opModify
	opModifyOne
	numOps
)

var opNames = [...]string{"Set", "SetOne", "Del", "DelOne", "Remove", "RemoveOne", "Modify", "ModifyOne"}

func tagged(e any) any { return []any{"m", e} }

// oneOf reports whether got equals before with exactly one of the nodes
// changed by f (or, for an empty selection, before itself).
func oneOf(before any, nodes []vref.Node, got any, f func(one []vref.Node) any) bool {
	if len(nodes) == 0 {
		return vref.TreeEqual(got, before)
	}
	ok := false
	for i := range nodes {
		ok = vx.Or(ok, vref.TreeEqual(got, f(nodes[i:i+1])))
	}
	return ok
}

// atStrict is vref.At with an absent map member reported as absent.
func atStrict(v any, p []any) (any, bool) {
	cur := v
	for _, k := range p {
		switch tk := k.(type) {
		case string:
			m, ok := cur.(map[string]any)
			if !ok {
				return nil, false
			}
			if cur, ok = m[tk]; !ok {
				return nil, false
			}
		case int:
			a, ok := cur.([]any)
			if !ok || tk < 0 || tk >= len(a) {
				return nil, false
			}
			cur = a[tk]
		}
	}
	return cur, true
}

// mutationMatches: the outcome (data mutated in place, or result) is the
// reference mutation of before at the given locations.
func mutationMatches(op int, before any, nodes []vref.Node, data, result any, newVal any) bool {
	ok := true
	switch op {
	case opSet:
		ok = vref.TreeEqual(data, vref.SetAll(before, nodes, func(any) any { return newVal }))
	case opSetOne:
		ok = oneOf(before, nodes, data, func(one []vref.Node) any {
			return vref.SetAll(before, one, func(any) any { return newVal })
		})
	case opDel:
		// a deleted map member is gone; a deleted array element is gone or nil
		ok = vx.Or(vref.TreeEqual(data, vref.RemoveAll(before, nodes, false)), vref.TreeEqual(data, vref.RemoveAll(before, nodes, true)))
	case opDelOne:
		ok = vx.Or(
			oneOf(before, nodes, data, func(one []vref.Node) any { return vref.RemoveAll(before, one, false) }),
			oneOf(before, nodes, data, func(one []vref.Node) any { return vref.RemoveAll(before, one, true) }))
	case opRemove:
		ok = vref.TreeEqual(result, vref.RemoveAll(before, nodes, false))
	case opRemoveOne:
		ok = oneOf(before, nodes, result, func(one []vref.Node) any { return vref.RemoveAll(before, one, false) })
	case opModify:
		ok = vref.TreeEqual(result, vref.SetAll(before, nodes, tagged))
	case opModifyOne:
		ok = oneOf(before, nodes, result, func(one []vref.Node) any { return vref.SetAll(before, one, tagged) })
	}
	return ok
}

// VerifC13_Mutate: Set/SetOne, Del/DelOne, Remove/RemoveOne, Modify/ModifyOne
// against reference mutations applied to the locations the reference
// selector picks; same data x path space as C05.
func VerifC13_Mutate() {
	op := vx.Choose("op", numOps)
	shape := chooseShape()
	x, rf, desc := buildPath()
	vx.Key("op", opNames[op])
	vx.Key("data", shape)
	vx.Key("path", desc)
	before := mkData(shape)
	data := mkData(shape)
	sel := vref.Select(rf, before)
	if sel.Unspecified {
		vx.Assume(false)
	}
	if vref.Overlapping(sel.Nodes) {
		vx.Cover("overlapping-selection-skipped", true)
		return
	}
	nodes := sel.Nodes
	newVal := int64(999)
	var err error
	var result any
	pan := vx.Catch(func() {
		switch op {
		case opSet:
			err = x.Set(data, newVal)
		case opSetOne:
			err = x.SetOne(data, newVal)
		case opDel:
			err = x.Del(data)
		case opDelOne:
			err = x.DelOne(data)
		case opRemove:
			result, err = x.Remove(data)
		case opRemoveOne:
			result, err = x.RemoveOne(data)
		case opModify:
			result, err = x.Modify(data, func(e any) (any, bool) { return tagged(e), true })
		case opModifyOne:
			result, err = x.ModifyOne(data, func(e any) (any, bool) { return tagged(e), true })
		}
	})
	vx.Assert("no-panic", !pan)
	if pan {
		return
	}
	// the same request on the same tree held as gen nodes
	// (Del / DelOne on gen data pass jp's private delete marker through
	// alt.Generify's reflection fallback, which the executor does not model:
	// deletion on gen data is covered through Remove / RemoveOne)
	withGen := vx.Param("GEN", 1) == 1 && op != opDel && op != opDelOne
	var gd any
	var gerr error
	var gres any
	if withGen {
		gd = alt.Generify(mkData(shape))
		gnew := gen.Int(999)
		gtag := func(e any) (any, bool) {
			n, _ := e.(gen.Node)
			return gen.Array{gen.String("m"), n}, true
		}
		gpan := vx.Catch(func() {
			switch op {
			case opSet:
				gerr = x.Set(gd, gnew)
			case opSetOne:
				gerr = x.SetOne(gd, gnew)
			case opDel:
				gerr = x.Del(gd)
			case opDelOne:
				gerr = x.DelOne(gd)
			case opRemove:
				gres, gerr = x.Remove(gd)
			case opRemoveOne:
				gres, gerr = x.RemoveOne(gd)
			case opModify:
				gres, gerr = x.Modify(gd, gtag)
			case opModifyOne:
				gres, gerr = x.ModifyOne(gd, gtag)
			}
		})
		vx.Assert("no-panic:gen", !gpan)
		if gpan {
			withGen = false
		} else {
			vx.Assert("gen-error-agrees", (gerr == nil) == (err == nil))
			if gerr != nil {
				withGen = false
			}
		}
	}
	vx.Observe("err", err != nil)
	if err != nil {
		// an impossible request is reported as an error (the property does
		// not promise atomicity, so the data is not inspected)
		vx.Cover("error", true)
		return
	}
	// Set creates members that do not exist when the last fragment names
	// them (child, index, union): wherever a parent lacks the member the
	// outcome is "creation", which the property exempts; not asserted.
	if op == opSet || op == opSetOne {
		last := rf[len(rf)-1].Kind
		if last == vref.FChild || last == vref.FNth || last == vref.FUnion {
			parents := vref.Select(rf[:len(rf)-1], before).Nodes
			members := 1
			if last == vref.FUnion {
				members = len(rf[len(rf)-1].Union)
			}
			if len(nodes) < len(parents)*members {
				vx.Cover("set-creates", true)
				return
			}
		}
	}
	if (op == opSet || op == opSetOne) && len(nodes) == 0 {
		vx.Cover("set-creates", true) // creation along child/index chains is not asserted
		return
	}
	ok := mutationMatches(op, before, nodes, data, result, newVal)
	if !ok {
		vx.Key("slice", sliceCase(rf))
		vx.Key("nsel", len(nodes))
		// label: is the outcome what reading every slice with an inclusive
		// end (known finding C13-slice-inclusive-end) would give?
		rfi := append([]vref.PFrag{}, rf...)
		hasSlice := false
		for k := range rfi {
			if rfi[k].Kind == vref.FSlice {
				rfi[k].InclEnd = true
				hasSlice = true
			}
		}
		incl := "false"
		if hasSlice {
			if mutationMatches(op, before, vref.Select(rfi, before).Nodes, data, result, newVal) {
				incl = "true"
			}
		}
		vx.Key("incl", incl)
	}
	vx.Assert("mutation-matches-reference", ok)
	// Independent of how the end of a slice is read (known finding
	// C13-slice-inclusive-end): a value-replacing operation changes nothing
	// outside the slice's grid start, start+step, ...
	if op == opSet || op == opSetOne || op == opModify || op == opModifyOne {
		rfg := append([]vref.PFrag{}, rf...)
		nslice := 0
		for k := range rfg {
			if rfg[k].Kind == vref.FSlice {
				rfg[k].Grid = true
				nslice++
			}
		}
		if nslice > 0 {
			after := data
			if op == opModify || op == opModifyOne {
				after = result
			}
			grid := vref.Select(rfg, before).Nodes
			lastF := rfg[len(rfg)-1]
			if op == opSet || op == opSetOne {
				// Set may create the member a child fragment names in every
				// parent on the grid (creation is exempt, but must stay there)
				switch lastF.Kind {
				case vref.FChild:
					grid = nil
					for _, pn := range vref.Select(rfg[:len(rfg)-1], before).Nodes {
						if _, isMap := pn.Val.(map[string]any); isMap {
							grid = append(grid, vref.Node{Path: append(append([]any{}, pn.Path...), lastF.Key)})
						}
					}
				case vref.FNth, vref.FUnion:
					nslice = 0 // creation inside arrays: not asserted
				}
			}
			if nslice > 0 && !vref.Overlapping(grid) {
				patched := vref.Copy(before)
				for _, g := range grid {
					if v, has := atStrict(after, g.Path); has {
						patched = vref.SetAll(patched, []vref.Node{g}, func(any) any { return v })
					}
				}
				vx.Assert("changes-stay-on-slice-grid", vref.TreeEqual(after, patched))
			}
		}
	}
	// the same mutation on the tree held in user collections (jp.Keyed /
	// jp.Indexed) has the same effect as on the simple data
	if vx.Param("KI", 1) == 1 && op != opRemove && op != opRemoveOne {
		kd := wrapKI(mkData(shape))
		var kerr error
		var kres any
		kpan := vx.Catch(func() {
			switch op {
			case opSet:
				kerr = x.Set(kd, newVal)
			case opSetOne:
				kerr = x.SetOne(kd, newVal)
			case opDel:
				kerr = x.Del(kd)
			case opDelOne:
				kerr = x.DelOne(kd)
			case opModify:
				kres, kerr = x.Modify(kd, func(e any) (any, bool) { return tagged(unwrapKI(e)), true })
			case opModifyOne:
				kres, kerr = x.ModifyOne(kd, func(e any) (any, bool) { return tagged(unwrapKI(e)), true })
			}
		})
		vx.Assert("no-panic:keyed/indexed", !kpan)
		if !kpan {
			vx.Assert("keyed-indexed-error-agrees", kerr == nil)
			if kerr == nil {
				if op == opModify { // (which single location a *One form picks may differ)
					vx.Assert("keyed-indexed-mutation-agrees", vref.TreeEqual(unwrapKI(kres), result))
				} else if op == opSet || op == opDel {
					vx.Assert("keyed-indexed-mutation-agrees", vref.TreeEqual(unwrapKI(kd), data))
				}
			}
		}
	}
	// ... and held as gen nodes: the same effect as on the simple data (a *One
	// form may pick another single location: then the reference decides)
	if withGen {
		safter, gafter := data, gsimple(gd)
		if op == opRemove || op == opRemoveOne || op == opModify || op == opModifyOne {
			safter, gafter = result, gsimple(gres)
		}
		same := vref.TreeEqual(gafter, safter)
		if !same && (op == opSetOne || op == opDelOne || op == opRemoveOne || op == opModifyOne) {
			same = mutationMatches(op, before, nodes, gsimple(gd), gsimple(gres), newVal)
		}
		vx.Assert("gen-mutation-agrees", same)
	}
	vx.Cover("changed", len(nodes) > 0)
	vx.Cover("nothing-selected", len(nodes) == 0)
}

func gsimple(v any) any {
	if n, ok := v.(gen.Node); ok && n != nil {
		return n.Simplify()
	}
	return v
}
