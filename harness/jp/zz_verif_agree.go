package jp

import (
	"github.com/ohler55/ojg/alt"
	"github.com/ohler55/ojg/gen"
	"github.com/ohler55/ojg/internal/vref"
	"github.com/ohler55/ojg/internal/vx"
)

// sameMulti compares two value lists: positionally when ordered, else as multisets.
func sameMulti(a, b []any, ordered bool) bool {
	if len(a) != len(b) {
		return false
	}
	if ordered {
		for i := range a {
			if !vref.TreeEqual(a[i], b[i]) {
				return false
			}
		}
		return true
	}
	used := make([]bool, len(b))
	for _, x := range a {
		found := false
		for j := range b {
			if !used[j] && vref.TreeEqual(x, b[j]) {
				used[j] = true
				found = true
				break
			}
		}
		if !found {
			return false
		}
	}
	return true
}

func member(v any, list []any) bool {
	for _, e := range list {
		if vref.TreeEqual(v, e) {
			return true
		}
	}
	return false
}

// orderDefined: the traversal never passes through a map with several
// members, a descent or a filter/wildcard over a map.
func orderDefined(rf []vref.PFrag, shape int) bool {
	return vref.Select(rf, mkData(shape)).Ordered
}

func endsInDescent(rf []vref.PFrag) bool {
	return len(rf) > 0 && rf[len(rf)-1].Kind == vref.FDescent
}

// VerifC11_Agree: Has, First, FirstFound, Locate, Walk, GetNodes and
// FirstNode against Get, same data x path space as C05 (paths not ending
// in a bare descent).
func VerifC11_Agree() {
	shape := chooseShape()
	data := mkData(shape)
	x, rf, desc := buildPath()
	if endsInDescent(rf) {
		vx.Assume(false)
	}
	vx.Key("data", shape)
	vx.Key("path", desc)
	var got []any
	if vx.Catch(func() { got = x.Get(data) }) {
		return // C05 / C12 report panics of Get
	}
	ordered := orderDefined(rf, shape)
	vx.Observe("n", len(got))

	// Has
	var has bool
	pan := vx.Catch(func() { has = x.Has(data) })
	vx.Assert("no-panic:Has", !pan)
	if !pan {
		bad := has != (len(got) > 0)
		if bad {
			vx.Key("slice", sliceCase(rf))
		}
		vx.Assert("has-iff-get-nonempty", !bad)
	}
	// First / FirstFound
	var first, ff any
	var found bool
	pan = vx.Catch(func() { first = x.First(data); ff, found = x.FirstFound(data) })
	vx.Assert("no-panic:First", !pan)
	if !pan {
		vx.Assert("firstfound-iff-get-nonempty", found == (len(got) > 0))
		if len(got) > 0 {
			if ordered {
				vx.Assert("first-is-get0", vx.And(vref.TreeEqual(first, got[0]), vref.TreeEqual(ff, got[0])))
			} else {
				vx.Assert("first-in-get", vx.And(member(first, got), member(ff, got)))
			}
		} else {
			vx.Assert("first-nil-when-empty", first == nil)
		}
	}
	// Locate: normalized paths whose own Get yields the corresponding result
	var locs []Expr
	pan = vx.Catch(func() { locs = x.Locate(data, 0) })
	vx.Assert("no-panic:Locate", !pan)
	if !pan {
		ok := len(locs) == len(got)
		var viaLoc []any
		for _, l := range locs {
			if !l.Normal() {
				ok = false
				continue
			}
			r := l.Get(data)
			if len(r) != 1 {
				ok = false
				continue
			}
			viaLoc = append(viaLoc, r[0])
		}
		ok = ok && sameMulti(viaLoc, got, ordered)
		if !ok {
			vx.Key("slice", sliceCase(rf))
		}
		vx.Assert("locate-agrees-with-get", ok)
	}
	// Expr.Walk: same (path, value) pairs
	var wvals []any
	wok, wnorm := true, true
	pan = vx.Catch(func() {
		x.Walk(data, func(path Expr, nodes []any) {
			if len(nodes) == 0 {
				wok = false
				return
			}
			v := nodes[len(nodes)-1]
			wvals = append(wvals, v)
			r := path.Get(data)
			if len(r) != 1 || !vref.TreeEqual(r[0], v) {
				wok = false
			}
			if !append(R(), path...).Normal() {
				wnorm = false
			}
		})
	})
	vx.Assert("no-panic:Walk", !pan)
	if !pan {
		ok := wok && sameMulti(wvals, got, false)
		if !ok {
			vx.Key("slice", sliceCase(rf))
		}
		vx.Assert("walk-agrees-with-get", ok)
		vx.Assert("walk-paths-normalized", wnorm)
	}
	// gen representation
	gd := alt.Generify(mkData(shape))
	var gn []gen.Node
	var fnode gen.Node
	pan = vx.Catch(func() { gn = x.GetNodes(gd); fnode = x.FirstNode(gd) })
	vx.Assert("no-panic:GetNodes", !pan)
	if !pan {
		var gvals []any
		for _, n := range gn {
			if n == nil {
				gvals = append(gvals, nil)
			} else {
				gvals = append(gvals, n.Simplify())
			}
		}
		ok := sameMulti(gvals, got, ordered)
		if !ok {
			vx.Key("slice", sliceCase(rf))
		}
		vx.Assert("getnodes-agrees-with-get", ok)
		if len(got) > 0 {
			var fv any
			if fnode != nil {
				fv = fnode.Simplify()
			}
			if ordered {
				vx.Assert("firstnode-is-get0", vref.TreeEqual(fv, got[0]))
			} else {
				vx.Assert("firstnode-in-get", member(fv, got))
			}
		}
	}
	// the same path on the gen data through Get
	var gg []any
	pan = vx.Catch(func() { gg = x.Get(gd) })
	vx.Assert("no-panic:Get(gen)", !pan)
	if !pan {
		var gvals []any
		for _, v := range gg {
			if n, ok := v.(gen.Node); ok && n != nil {
				gvals = append(gvals, n.Simplify())
			} else {
				gvals = append(gvals, v)
			}
		}
		vx.Assert("get-on-gen-agrees", sameMulti(gvals, got, ordered))
	}
	// Has / First / Locate / Walk on the gen representation
	var ghas bool
	var gfirst any
	var glocs []Expr
	var gwalk []any
	pan = vx.Catch(func() {
		ghas = x.Has(gd)
		gfirst = x.First(gd)
		glocs = x.Locate(gd, 0)
		x.Walk(gd, func(path Expr, nodes []any) {
			if len(nodes) > 0 {
				gwalk = append(gwalk, simplifyAny(nodes[len(nodes)-1]))
			}
		})
	})
	vx.Assert("no-panic:evaluators(gen)", !pan)
	if !pan {
		vx.Assert("has-on-gen-agrees", ghas == (len(got) > 0))
		if len(got) > 0 {
			if ordered {
				vx.Assert("first-on-gen-agrees", vref.TreeEqual(simplifyAny(gfirst), got[0]))
			} else {
				vx.Assert("first-on-gen-agrees", member(simplifyAny(gfirst), got))
			}
		}
		ok := len(glocs) == len(got)
		if !ok {
			vx.Key("slice", sliceCase(rf))
		}
		vx.Assert("locate-on-gen-agrees-with-get", ok)
		ok = sameMulti(gwalk, got, false)
		if !ok {
			vx.Key("slice", sliceCase(rf))
		}
		vx.Assert("walk-on-gen-agrees-with-get", ok)
	}
	// the same tree held in user collections (jp.Keyed / jp.Indexed)
	if vx.Param("KI", 1) == 1 {
		kd := wrapKI(mkData(shape))
		var kg []any
		var khas bool
		var kfirst any
		pan = vx.Catch(func() {
			kg = x.Get(kd)
			khas = x.Has(kd)
			kfirst = x.First(kd)
		})
		vx.Assert("no-panic:evaluators(keyed/indexed)", !pan)
		if !pan {
			var kvals []any
			for _, v := range kg {
				kvals = append(kvals, unwrapKI(v))
			}
			// compared as multisets: the collections keep their members in key
			// order while Go maps have none
			ok := sameMulti(kvals, got, false)
			if !ok {
				vx.Key("slice", sliceCase(rf))
			}
			vx.Assert("get-on-keyed-indexed-agrees", ok)
			vx.Assert("has-on-keyed-indexed-agrees", khas == (len(got) > 0))
			if len(got) > 0 {
				vx.Assert("first-on-keyed-indexed-agrees", member(unwrapKI(kfirst), got))
			}
		}
	}
	vx.Cover("nonempty", len(got) > 0)
	vx.Cover("empty", len(got) == 0)
}

// vKeyed / vIndexed: minimal user collections implementing jp.Keyed and
// jp.Indexed. They are a named map and a named slice type (not structs) so
// that jp's reflection fallback for fragments that do not apply to them (a
// child of an Indexed, an index into a Keyed) ends at the kind switch.
type vKeyed map[string]any

func (k vKeyed) ValueForKey(key string) (any, bool) {
	v, has := k[key]
	return v, has
}
func (k vKeyed) SetValueForKey(key string, v any) { k[key] = v }
func (k vKeyed) RemoveValueForKey(key string)    { delete(k, key) }
func (k vKeyed) Keys() []string {
	var ks []string
	for _, key := range []string{"a", "b", "c", "x"} { // the keys mkData uses, in order
		if _, has := k[key]; has {
			ks = append(ks, key)
		}
	}
	for key := range k {
		if key != "a" && key != "b" && key != "c" && key != "x" {
			ks = append(ks, key)
		}
	}
	return ks
}

type vIndexed []any

func (x vIndexed) ValueAtIndex(i int) any {
	if i < 0 || len(x) <= i {
		return nil
	}
	return x[i]
}
func (x vIndexed) SetValueAtIndex(i int, v any) {
	if 0 <= i && i < len(x) {
		x[i] = v
	}
}
func (x vIndexed) Size() int { return len(x) }

func wrapKI(v any) any {
	switch tv := v.(type) {
	case []any:
		x := make(vIndexed, 0, len(tv))
		for _, e := range tv {
			x = append(x, wrapKI(e))
		}
		return x
	case map[string]any:
		k := vKeyed{}
		for key, e := range tv {
			k[key] = wrapKI(e)
		}
		return k
	}
	return v
}

func unwrapKI(v any) any {
	switch tv := v.(type) {
	case vIndexed:
		out := make([]any, 0, len(tv))
		for _, e := range tv {
			out = append(out, unwrapKI(e))
		}
		return out
	case vKeyed:
		out := map[string]any{}
		for k, e := range tv {
			out[k] = unwrapKI(e)
		}
		return out
	}
	return v
}

func simplifyAny(v any) any {
	if n, ok := v.(gen.Node); ok && n != nil {
		return n.Simplify()
	}
	return v
}
