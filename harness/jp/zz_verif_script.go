package jp

import (
	"github.com/ohler55/ojg/alt"
	"github.com/ohler55/ojg/gen"
	"github.com/ohler55/ojg/internal/vx"
)

// operand kinds
const (
	vkNil = iota
	vkBool
	vkInt
	vkFloat
	vkString
	vkArray
	vkMap
	vkMissing
	numVKinds
)

var vkNames = [...]string{"nil", "bool", "int", "float", "string", "array", "map", "missing"}

// operand is a value of concrete kind with symbolic content.
type operand struct {
	kind int
	b    bool
	i    int64
	f    float64
	s    string
}

func mkOperand(tag string, kind int) operand {
	o := operand{kind: kind}
	switch kind {
	case vkBool:
		o.b = vx.Bool(tag + "b")
	case vkInt:
		o.i = vx.Int64(tag + "i")
	case vkFloat:
		o.f = vx.Float64(tag + "f")
		vx.Assume(o.f == o.f) // NaN cannot come out of JSON
	case vkString:
		o.s = vx.String(tag+"s", vx.Choose(tag+"len", 3))
	}
	return o
}

func (o operand) value() any {
	switch o.kind {
	case vkBool:
		return o.b
	case vkInt:
		return o.i
	case vkFloat:
		return o.f
	case vkString:
		return o.s
	case vkArray:
		return []any{int64(1)}
	case vkMap:
		return map[string]any{"x": int64(1)}
	}
	return nil
}

func (o operand) constant() *Equation {
	switch o.kind {
	case vkBool:
		return ConstBool(o.b)
	case vkInt:
		return ConstInt(o.i)
	case vkFloat:
		return ConstFloat(o.f)
	case vkString:
		return ConstString(o.s)
	}
	return ConstNil()
}

func numeric(o operand) bool { return o.kind == vkInt || o.kind == vkFloat }

func asFloat(o operand) float64 {
	if o.kind == vkInt {
		return float64(o.i)
	}
	return o.f
}

// refEq is "equal" as the property states it: numbers by value across int
// and float, strings/bools/nil by value, containers and mismatched kinds
// are simply unequal.
func refEq(l, r operand) bool {
	switch {
	case l.kind == vkInt && r.kind == vkInt:
		return l.i == r.i
	case numeric(l) && numeric(r):
		return asFloat(l) == asFloat(r)
	case l.kind != r.kind:
		return false
	case l.kind == vkNil:
		return true
	case l.kind == vkBool:
		return l.b == r.b
	case l.kind == vkString:
		return len(l.s) == len(r.s) && vx.StrEq(l.s, r.s)
	}
	return false // containers
}

// refLess is "l < r" where ordering is defined (numbers, strings); spec=false otherwise.
func refLess(l, r operand) (less bool, spec bool) {
	switch {
	case l.kind == vkInt && r.kind == vkInt:
		return l.i < r.i, true
	case numeric(l) && numeric(r):
		return asFloat(l) < asFloat(r), true
	case l.kind == vkString && r.kind == vkString:
		return l.s < r.s, true
	case l.kind != r.kind:
		return false, true // ordering between different kinds is false
	}
	return false, false
}

const (
	sEq = iota
	sNeq
	sLt
	sGt
	sLte
	sGte
	sAnd
	sOr
	sNot
	sAdd
	sSub
	sMul
	sDiv
	sExists
	sHas
	sIn
	numSOps
)

// genKeepNil is alt.Generify that keeps null members (Generify's default
// options drop them).
func genKeepNil(v any) any {
	switch t := v.(type) {
	case map[string]any:
		o := gen.Object{}
		for k, m := range t {
			g, _ := genKeepNil(m).(gen.Node)
			o[k] = g
		}
		return o
	case []any:
		a := make(gen.Array, len(t))
		for i, m := range t {
			a[i], _ = genKeepNil(m).(gen.Node)
		}
		return a
	case nil:
		return nil
	}
	return alt.Generify(v)
}

// the right operand of "in": a list with a number, a string and containers
func inList() []any {
	return []any{int64(1), []any{int64(1)}, map[string]any{"x": int64(1)}, "s"}
}

var sopNames = [...]string{"==", "!=", "<", ">", "<=", ">=", "&&", "||", "!", "+", "-", "*", "/", "exists", "has", "in"}

func mkEquation(op int, l, r *Equation) *Equation {
	switch op {
	case sEq:
		return Eq(l, r)
	case sNeq:
		return Neq(l, r)
	case sLt:
		return Lt(l, r)
	case sGt:
		return Gt(l, r)
	case sLte:
		return Lte(l, r)
	case sGte:
		return Gte(l, r)
	case sAnd:
		return And(l, r)
	case sOr:
		return Or(l, r)
	case sNot:
		return Not(l)
	case sAdd:
		return Eq(Add(l, r), ConstInt(0))
	case sSub:
		return Eq(Sub(l, r), ConstInt(0))
	case sMul:
		return Eq(Multiply(l, r), ConstInt(0))
	case sDiv:
		return Eq(Divide(l, r), ConstInt(0))
	case sExists:
		return Exists(l, ConstBool(true))
	case sHas:
		return Has(l, ConstBool(true))
	case sIn:
		return In(l, r)
	}
	return nil
}

// evalFilter evaluates eq as a filter over the one-element array [elem].
func evalFilter(eq *Equation, elem any) (res bool, pan bool) {
	pan = vx.Catch(func() {
		res = len(R().F(eq).Get([]any{elem})) == 1
	})
	return
}

// VerifC12_Ops: every operator x left kind x right kind (right operand a
// sub-path or a constant), symbolic operand values, against the typed
// comparison semantics of the property; totality; == / != complement;
// Script.Match = membership in the filter result.
func VerifC12_Ops() {
	op := vx.Choose("op", numSOps)
	lk := vx.Choose("left", numVKinds)
	rk := vx.Choose("right", numVKinds)
	rconst := false
	if rk != vkArray && rk != vkMap && rk != vkMissing {
		rconst = vx.Choose("rconst", 2) == 1
	}
	if op >= sAdd && op <= sDiv {
		// arithmetic: symbolic float arithmetic is outside the claim; ints and concrete floats only
		vx.Assume(lk != vkFloat && rk != vkFloat)
	}
	vx.Key("op", sopNames[op])
	vx.Key("left", vkNames[lk])
	vx.Key("right", vkNames[rk])
	vx.Key("rconst", rconst)
	l, r := mkOperand("l", lk), mkOperand("r", rk)
	elem := map[string]any{}
	if lk != vkMissing {
		elem["a"] = l.value()
	}
	if rk != vkMissing && !rconst {
		elem["b"] = r.value()
	}
	le := Get(A().C("a"))
	re := Get(A().C("b"))
	if rconst {
		re = r.constant()
	}
	if op == sIn {
		// the right operand is a fixed list (as member b, or as a constant)
		vx.Assume(rk == vkArray)
		rconst = vx.Choose("inconst", 2) == 1
		if rconst {
			re = ConstList(inList())
			delete(elem, "b")
		} else {
			elem["b"] = inList()
		}
	}
	eq := mkEquation(op, le, re)
	got, pan := evalFilter(eq, elem)
	vx.Assert("no-panic", !pan)
	if pan {
		return
	}
	vx.Observe("res", got)
	single := lk != vkMissing && rk != vkMissing
	switch op {
	case sEq, sNeq:
		if single {
			want := refEq(l, r)
			if op == sNeq {
				want = !want
			}
			vx.Assert("value", got == want)
			// complement on the very same operands
			other, pan2 := evalFilter(mkEquation(sEq+sNeq-op, le, re), elem)
			vx.Assert("no-panic", !pan2)
			if !pan2 {
				vx.Assert("eq-neq-complement", got != other)
			}
		}
	case sLt, sGt, sLte, sGte:
		if single {
			a, b := l, r
			if op == sGt || op == sLte {
				a, b = r, l // a > b == b < a ; a <= b == !(b < a)
			}
			less, spec := refLess(a, b)
			if spec {
				want := less
				if op == sLte || op == sGte {
					// <= and >= : not (other < this) where ordering is defined between same kinds
					if (numeric(l) && numeric(r)) || (l.kind == vkString && r.kind == vkString) {
						want = !less
					} else {
						want = false
					}
				}
				vx.Assert("value", got == want)
			}
		}
	case sAnd, sOr:
		if lk == vkBool && rk == vkBool {
			want := vx.And(l.b, r.b)
			if op == sOr {
				want = vx.Or(l.b, r.b)
			}
			vx.Assert("value", got == want)
		}
	case sNot:
		if lk == vkBool {
			vx.Assert("value", got == !l.b)
		}
	case sExists, sHas:
		vx.Assert("value", got == (lk != vkMissing))
	case sIn:
		// membership by value; a container is never equal to anything
		want := false
		switch lk {
		case vkInt:
			want = l.i == 1
		case vkString:
			want = len(l.s) == 1 && l.s[0] == 's'
		}
		if lk != vkMissing && lk != vkFloat { // (whether 1.0 is "in" [1] is not stated)
			vx.Assert("value", got == want)
		}
	}
	// the same element held as gen nodes: total, and the same verdict
	if vx.Param("GEN", 1) == 1 {
		ggot, gpan := evalFilter(eq, genKeepNil(elem))
		vx.Assert("no-panic:gen", !gpan)
		if !gpan {
			vx.Assert("gen-agrees", ggot == got)
		}
	}
	// Script.Match(v) equals membership of v in the filter result
	var m bool
	pan = vx.Catch(func() { m = eq.Script().Match(elem) })
	vx.Assert("no-panic:Match", !pan)
	if !pan {
		vx.Assert("match-equals-filter", m == got)
	}
	vx.Cover("true", got)
	vx.Cover("false", !got)
}

func cmpInt(op int, a, b int64) bool {
	switch op {
	case sEq:
		return a == b
	case sNeq:
		return a != b
	case sLt:
		return a < b
	case sGt:
		return a > b
	case sLte:
		return a <= b
	}
	return a >= b
}

// VerifC12_Multi: multi-valued sub-paths on both sides (@.a[*] op @.b[*],
// 1..3 symbolic ints each): the script is true iff some combination of a
// left and a right value satisfies the operator.
func VerifC12_Multi() {
	op := vx.Choose("op", 6)
	na := 1 + vx.Choose("na", 3)
	nb := 1 + vx.Choose("nb", 3)
	vx.Key("op", sopNames[op])
	vx.Key("na", na)
	vx.Key("nb", nb)
	var av, bv []int64
	var aa, ba []any
	for i := 0; i < na; i++ {
		v := vx.Int64("a")
		av, aa = append(av, v), append(aa, v)
	}
	for i := 0; i < nb; i++ {
		v := vx.Int64("b")
		bv, ba = append(bv, v), append(ba, v)
	}
	elem := map[string]any{"a": aa, "b": ba}
	eq := mkEquation(op, Get(A().C("a").W()), Get(A().C("b").W()))
	got, pan := evalFilter(eq, elem)
	vx.Assert("no-panic", !pan)
	if pan {
		return
	}
	want := false
	for _, a := range av {
		for _, b := range bv {
			want = vx.Or(want, cmpInt(op, a, b))
		}
	}
	vx.Observe("res", got)
	vx.Assert("any-combination", got == want)
	vx.Cover("true", got)
	vx.Cover("false", !got)
}
