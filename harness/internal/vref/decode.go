package vref

// Reference JSON decoder (RFC 8259): builds a tree from a byte string that
// the recogniser accepts. Numbers are kept as their literal text (Num) so
// that harnesses can state what they denote; strings are decoded bytes
// (escapes resolved, surrogate pairs combined, other bytes copied).

// Num is a JSON number literal.
type Num struct{ Text string }

type decoder struct {
	buf []byte
	pos int
	ok  bool
}

func (d *decoder) ws() {
	for d.pos < len(d.buf) {
		switch d.buf[d.pos] {
		case ' ', '\t', '\n', '\r':
			d.pos++
		default:
			return
		}
	}
}

func hexVal(b byte) (int, bool) {
	switch {
	case '0' <= b && b <= '9':
		return int(b - '0'), true
	case 'a' <= b && b <= 'f':
		return int(b-'a') + 10, true
	case 'A' <= b && b <= 'F':
		return int(b-'A') + 10, true
	}
	return 0, false
}

func (d *decoder) hex4() (int, bool) {
	if d.pos+4 > len(d.buf) {
		return 0, false
	}
	v := 0
	for i := 0; i < 4; i++ {
		h, ok := hexVal(d.buf[d.pos+i])
		if !ok {
			return 0, false
		}
		v = v<<4 | h
	}
	d.pos += 4
	return v, true
}

// appendRune appends the UTF-8 encoding of r (r <= 0x10FFFF).
func appendRune(out []byte, r int) []byte {
	switch {
	case r < 0x80:
		return append(out, byte(r))
	case r < 0x800:
		return append(out, byte(0xC0|r>>6), byte(0x80|r&0x3F))
	case r < 0x10000:
		return append(out, byte(0xE0|r>>12), byte(0x80|(r>>6)&0x3F), byte(0x80|r&0x3F))
	}
	return append(out, byte(0xF0|r>>18), byte(0x80|(r>>12)&0x3F), byte(0x80|(r>>6)&0x3F), byte(0x80|r&0x3F))
}

// str decodes a string starting at the opening quote.
func (d *decoder) str() (string, bool) {
	if d.pos >= len(d.buf) || d.buf[d.pos] != '"' {
		return "", false
	}
	d.pos++
	out := []byte{}
	for d.pos < len(d.buf) {
		b := d.buf[d.pos]
		d.pos++
		switch {
		case b == '"':
			return string(out), true
		case b < 0x20:
			return "", false
		case b == '\\':
			if d.pos >= len(d.buf) {
				return "", false
			}
			e := d.buf[d.pos]
			d.pos++
			switch e {
			case '"', '\\', '/':
				out = append(out, e)
			case 'b':
				out = append(out, '\b')
			case 'f':
				out = append(out, '\f')
			case 'n':
				out = append(out, '\n')
			case 'r':
				out = append(out, '\r')
			case 't':
				out = append(out, '\t')
			case 'u':
				r, ok := d.hex4()
				if !ok {
					return "", false
				}
				if 0xD800 <= r && r < 0xDC00 {
					// high surrogate: combine with a following \uDC00..\uDFFF
					if d.pos+6 <= len(d.buf) && d.buf[d.pos] == '\\' && d.buf[d.pos+1] == 'u' {
						save := d.pos
						d.pos += 2
						lo, ok2 := d.hex4()
						if ok2 && 0xDC00 <= lo && lo < 0xE000 {
							r = 0x10000 + (r-0xD800)<<10 + (lo - 0xDC00)
						} else {
							d.pos = save
							r = 0xFFFD
						}
					} else {
						r = 0xFFFD
					}
				} else if 0xDC00 <= r && r < 0xE000 {
					r = 0xFFFD
				}
				out = appendRune(out, r)
			default:
				return "", false
			}
		default:
			out = append(out, b)
		}
	}
	return "", false
}

func isDigit(b byte) bool { return '0' <= b && b <= '9' }

func (d *decoder) num() (Num, bool) {
	start := d.pos
	if d.pos < len(d.buf) && d.buf[d.pos] == '-' {
		d.pos++
	}
	if d.pos >= len(d.buf) {
		return Num{}, false
	}
	if d.buf[d.pos] == '0' {
		d.pos++
	} else if isDigit(d.buf[d.pos]) {
		for d.pos < len(d.buf) && isDigit(d.buf[d.pos]) {
			d.pos++
		}
	} else {
		return Num{}, false
	}
	if d.pos < len(d.buf) && d.buf[d.pos] == '.' {
		d.pos++
		n := 0
		for d.pos < len(d.buf) && isDigit(d.buf[d.pos]) {
			d.pos++
			n++
		}
		if n == 0 {
			return Num{}, false
		}
	}
	if d.pos < len(d.buf) && (d.buf[d.pos] == 'e' || d.buf[d.pos] == 'E') {
		d.pos++
		if d.pos < len(d.buf) && (d.buf[d.pos] == '+' || d.buf[d.pos] == '-') {
			d.pos++
		}
		n := 0
		for d.pos < len(d.buf) && isDigit(d.buf[d.pos]) {
			d.pos++
			n++
		}
		if n == 0 {
			return Num{}, false
		}
	}
	return Num{Text: string(d.buf[start:d.pos])}, true
}

func (d *decoder) lit(s string) bool {
	if d.pos+len(s) > len(d.buf) {
		return false
	}
	for i := 0; i < len(s); i++ {
		if d.buf[d.pos+i] != s[i] {
			return false
		}
	}
	d.pos += len(s)
	return true
}

func (d *decoder) value(depth int) (any, bool) {
	d.ws()
	if d.pos >= len(d.buf) || depth > 200 {
		return nil, false
	}
	switch b := d.buf[d.pos]; {
	case b == '"':
		return d.str()
	case b == '{':
		d.pos++
		m := map[string]any{}
		d.ws()
		if d.pos < len(d.buf) && d.buf[d.pos] == '}' {
			d.pos++
			return m, true
		}
		for {
			d.ws()
			k, ok := d.str()
			if !ok {
				return nil, false
			}
			d.ws()
			if d.pos >= len(d.buf) || d.buf[d.pos] != ':' {
				return nil, false
			}
			d.pos++
			v, ok := d.value(depth + 1)
			if !ok {
				return nil, false
			}
			m[k] = v
			d.ws()
			if d.pos >= len(d.buf) {
				return nil, false
			}
			if d.buf[d.pos] == ',' {
				d.pos++
				continue
			}
			if d.buf[d.pos] == '}' {
				d.pos++
				return m, true
			}
			return nil, false
		}
	case b == '[':
		d.pos++
		a := []any{}
		d.ws()
		if d.pos < len(d.buf) && d.buf[d.pos] == ']' {
			d.pos++
			return a, true
		}
		for {
			v, ok := d.value(depth + 1)
			if !ok {
				return nil, false
			}
			a = append(a, v)
			d.ws()
			if d.pos >= len(d.buf) {
				return nil, false
			}
			if d.buf[d.pos] == ',' {
				d.pos++
				continue
			}
			if d.buf[d.pos] == ']' {
				d.pos++
				return a, true
			}
			return nil, false
		}
	case b == 't':
		return true, d.lit("true")
	case b == 'f':
		return false, d.lit("false")
	case b == 'n':
		return nil, d.lit("null")
	case b == '-' || isDigit(b):
		return d.num()
	}
	return nil, false
}

// Decode parses exactly one JSON text (whitespace around it allowed).
func Decode(buf []byte) (any, bool) {
	d := &decoder{buf: buf}
	v, ok := d.value(0)
	if !ok {
		return nil, false
	}
	d.ws()
	if d.pos != len(buf) {
		return nil, false
	}
	return v, true
}

// DecodeString decodes one JSON string literal that must span all of buf.
func DecodeString(buf []byte) (string, bool) {
	d := &decoder{buf: buf}
	s, ok := d.str()
	return s, ok && d.pos == len(buf)
}
