package vref

import (
	"encoding/json"

	"github.com/ohler55/ojg/internal/vx"
)

// TreeEqual compares two simple value trees (nil, bool, int64, float64,
// string, json.Number, []any, map[string]any) for equality of kind and
// value. It is written without short-circuit operators so that symbolic
// leaves yield one boolean term instead of forking.
func TreeEqual(a, b any) bool {
	switch ta := a.(type) {
	case nil:
		return b == nil
	case bool:
		tb, ok := b.(bool)
		return vx.And(ok, ta == tb)
	case int64:
		tb, ok := b.(int64)
		return vx.And(ok, ta == tb)
	case int:
		tb, ok := b.(int)
		return vx.And(ok, ta == tb)
	case float64:
		tb, ok := b.(float64)
		// bit-identical or both NaN; ParseFloat results are uninterpreted
		// values of the parsed text, equal when the text is the same
		return vx.And(ok, vx.Or(ta == tb, vx.And(ta != ta, tb != tb)))
	case string:
		tb, ok := b.(string)
		if !ok || len(ta) != len(tb) {
			return false
		}
		return vx.StrEq(ta, tb)
	case json.Number:
		tb, ok := b.(json.Number)
		if !ok || len(ta) != len(tb) {
			return false
		}
		return vx.StrEq(string(ta), string(tb))
	case []any:
		tb, ok := b.([]any)
		if !ok || len(ta) != len(tb) {
			return false
		}
		eq := true
		for i := range ta {
			eq = vx.And(eq, TreeEqual(ta[i], tb[i]))
		}
		return eq
	case map[string]any:
		tb, ok := b.(map[string]any)
		if !ok || len(ta) != len(tb) {
			return false
		}
		eq := true
		for k, va := range ta {
			vb, has := tb[k]
			if !has {
				return false
			}
			eq = vx.And(eq, TreeEqual(va, vb))
		}
		return eq
	}
	return false
}

// Kind names the dynamic kind of a simple value (for finding signatures).
func Kind(a any) string {
	switch a.(type) {
	case nil:
		return "nil"
	case bool:
		return "bool"
	case int64:
		return "int64"
	case float64:
		return "float64"
	case string:
		return "string"
	case json.Number:
		return "json.Number"
	case []any:
		return "array"
	case map[string]any:
		return "object"
	}
	return "other"
}
