// Package vref holds the reference models (oracles) the harnesses compare
// ojg against. They are written from the specifications the properties
// cite (RFC 8259, the JSONPath descriptions in the property text), not
// from ojg's code, and are executed symbolically on the same inputs.
package vref

// Outcome kinds of Classify.
const (
	Accept     = 0 // exactly one JSON text (optionally BOM-prefixed, whitespace around)
	NoDoc      = 1 // empty or whitespace only
	Reject     = 2 // At = offset of the first byte after which no extension is valid
	Incomplete = 3 // every byte is fine but the text is not finished
)

type Outcome struct {
	Kind  int
	At    int    // offset into the input (including a BOM) of the offending byte, for Reject; len(input) otherwise
	BOM   bool   // the input starts with 0xEF (a BOM or the start of one)
	Depth int    // open containers at the end / at the offending byte
	Trace string // reference automaton states, one letter per byte (path-determined: used in finding signatures)
}

var kindNames = [...]string{"Accept", "NoDoc", "Reject", "Incomplete"}

func (o Outcome) KindName() string { return kindNames[o.Kind] }

func (o Outcome) OK() bool { return o.Kind == Accept || o.Kind == NoDoc }

// byte classes
const (
	cOther = iota // any other byte (incl. >= 0x80)
	cSpace        // ' '
	cWS           // \t, \n, \r
	cCtl          // < 0x20 other than whitespace
	cQuote
	cBackslash
	cLBrace
	cRBrace
	cLBrack
	cRBrack
	cComma
	cColon
	cMinus
	cPlus
	cDot
	cZero
	cDigit     // 1-9
	cE         // e, E (also hex)
	cHexLetter // c, d, A-D, F
	cLitT      // t
	cLitF      // f (also hex)
	cLitN      // n
	cLitR      // r
	cLitU      // u
	cLitA      // a (also hex)
	cLitB      // b (also hex; escape \b)
	cSlash     // '/'
	numClasses
)

var class [256]byte

// actions (what a state does with a byte class)
const (
	aBad = iota
	aSkip
	aQuote
	aLBrace
	aLBrack
	aRBrack
	aRBrace
	aMinus
	aZero
	aDigit
	aTrue
	aFalse
	aNull
	aColon
	aComma
	aBackslash
	aChar
	aEscSimple
	aEscU
	aHex
	aDot
	aExp
	aSign
	aEndNum
)

// per-state action tables, indexed by byte class
var (
	actValue, actArrFirst, actObjFirst, actObjKey, actColon, actAfter [numClasses]byte
	actStr, actEsc, actU, actNeg, actZero, actInt, actDot, actFrac    [numClasses]byte
	actE, actESign, actExp                                            [numClasses]byte
)

func set(t *[numClasses]byte, act byte, classes ...int) {
	for _, c := range classes {
		t[c] = act
	}
}

func init() {
	for i := 0; i < 0x20; i++ {
		class[i] = cCtl
	}
	class[' '] = cSpace
	class['\t'], class['\n'], class['\r'] = cWS, cWS, cWS
	class['"'] = cQuote
	class['\\'] = cBackslash
	class['{'], class['}'], class['['], class[']'] = cLBrace, cRBrace, cLBrack, cRBrack
	class[','], class[':'], class['-'], class['+'], class['.'] = cComma, cColon, cMinus, cPlus, cDot
	class['0'] = cZero
	for i := '1'; i <= '9'; i++ {
		class[i] = cDigit
	}
	for _, b := range []byte("cdABCDF") {
		class[b] = cHexLetter
	}
	class['e'], class['E'] = cE, cE
	class['t'], class['f'], class['n'], class['r'], class['u'], class['a'], class['b'] = cLitT, cLitF, cLitN, cLitR, cLitU, cLitA, cLitB
	class['/'] = cSlash

	// value start
	set(&actValue, aSkip, cSpace, cWS)
	set(&actValue, aQuote, cQuote)
	set(&actValue, aLBrace, cLBrace)
	set(&actValue, aLBrack, cLBrack)
	set(&actValue, aMinus, cMinus)
	set(&actValue, aZero, cZero)
	set(&actValue, aDigit, cDigit)
	set(&actValue, aTrue, cLitT)
	set(&actValue, aFalse, cLitF)
	set(&actValue, aNull, cLitN)
	actArrFirst = actValue
	set(&actArrFirst, aRBrack, cRBrack)
	set(&actObjFirst, aSkip, cSpace, cWS)
	set(&actObjFirst, aQuote, cQuote)
	actObjKey = actObjFirst
	set(&actObjFirst, aRBrace, cRBrace)
	set(&actColon, aSkip, cSpace, cWS)
	set(&actColon, aColon, cColon)
	set(&actAfter, aSkip, cSpace, cWS)
	set(&actAfter, aComma, cComma)
	set(&actAfter, aRBrace, cRBrace)
	set(&actAfter, aRBrack, cRBrack)
	// strings: everything but quote, backslash and bytes < 0x20 is a character
	for c := 0; c < numClasses; c++ {
		actStr[c] = aChar
	}
	set(&actStr, aBad, cCtl, cWS)
	set(&actStr, aQuote, cQuote)
	set(&actStr, aBackslash, cBackslash)
	set(&actEsc, aEscSimple, cQuote, cBackslash, cSlash, cLitB, cLitF, cLitN, cLitR, cLitT)
	set(&actEsc, aEscU, cLitU)
	set(&actU, aHex, cZero, cDigit, cE, cHexLetter, cLitF, cLitA, cLitB)
	// numbers
	set(&actNeg, aZero, cZero)
	set(&actNeg, aDigit, cDigit)
	for c := 0; c < numClasses; c++ {
		actZero[c], actInt[c], actFrac[c], actExp[c] = aEndNum, aEndNum, aEndNum, aEndNum
	}
	set(&actZero, aBad, cZero, cDigit)
	set(&actZero, aDot, cDot)
	set(&actZero, aExp, cE)
	set(&actInt, aDigit, cZero, cDigit)
	set(&actInt, aDot, cDot)
	set(&actInt, aExp, cE)
	set(&actDot, aDigit, cZero, cDigit)
	set(&actFrac, aDigit, cZero, cDigit)
	set(&actFrac, aExp, cE)
	set(&actE, aSign, cPlus, cMinus)
	set(&actE, aDigit, cZero, cDigit)
	set(&actESign, aDigit, cZero, cDigit)
	set(&actExp, aDigit, cZero, cDigit)
}

// automaton states
const (
	sValue    = iota // expecting a value
	sArrFirst        // after '[': value or ']'
	sObjFirst        // after '{': '"' or '}'
	sObjKey          // after ',' in an object: '"'
	sColon           // after a key: ':'
	sAfter           // after a complete value
	sStr             // inside a string
	sEsc             // after a backslash
	sU               // inside \uXXXX (HexLeft counts down)
	sNeg             // after '-'
	sZero            // after a leading 0
	sInt             // in integer digits
	sDot             // after '.', digit required
	sFrac            // in fraction digits
	sE               // after e/E
	sESign           // after exponent sign, digit required
	sExp             // in exponent digits
	sLit             // inside true/false/null
)

const maxDepth = 64

// Machine is the RFC 8259 recogniser, byte at a time.
type Machine struct {
	State   int
	Stack   [maxDepth]byte // '{' or '['
	Depth   int
	IsKey   bool   // current string is an object key
	HexLeft int    // remaining hex digits of \u
	Lit     string // literal being matched
	LitPos  int
	Seen    bool   // a top-level value has started
	Trace   []byte // one letter per consumed byte: the state after it ('!'+class symbol on reject)
}

const stateLetters = "VAOKCaSEUNZIDFesXL"
const classSymbols = "o wc\"\\{}[],:-+.01ehtfnruab/"

func (m *Machine) Init() { m.State = sValue; m.Depth = 0; m.Seen = false; m.Trace = m.Trace[:0] }

// Feed is Step plus trace recording.
func (m *Machine) Feed(b byte) bool {
	if !m.Step(b) {
		m.Trace = append(m.Trace, '!')
		return false
	}
	m.Trace = append(m.Trace, stateLetters[m.State])
	return true
}

func (m *Machine) inObject() bool { return m.Depth > 0 && m.Stack[m.Depth-1] == '{' }

func (m *Machine) table() *[numClasses]byte {
	switch m.State {
	case sValue:
		return &actValue
	case sArrFirst:
		return &actArrFirst
	case sObjFirst:
		return &actObjFirst
	case sObjKey:
		return &actObjKey
	case sColon:
		return &actColon
	case sAfter:
		return &actAfter
	case sStr:
		return &actStr
	case sEsc:
		return &actEsc
	case sU:
		return &actU
	case sNeg:
		return &actNeg
	case sZero:
		return &actZero
	case sInt:
		return &actInt
	case sDot:
		return &actDot
	case sFrac:
		return &actFrac
	case sE:
		return &actE
	case sESign:
		return &actESign
	}
	return &actExp
}

// Step consumes one byte; it returns false if no valid JSON text has the
// bytes consumed so far followed by b as a prefix.
func (m *Machine) Step(b byte) bool {
	if m.State == sLit {
		if b != m.Lit[m.LitPos] {
			return false
		}
		m.LitPos++
		if m.LitPos == len(m.Lit) {
			m.State = sAfter
		}
		return true
	}
	c := class[b]
	act := m.table()[c]
	if act == aEndNum {
		// the number is complete; the byte is handled as the one after a value
		m.State = sAfter
		act = actAfter[c]
	}
	switch act {
	case aSkip, aChar:
		return true
	case aQuote:
		switch m.State {
		case sStr:
			if m.IsKey {
				m.State = sColon
			} else {
				m.State = sAfter
			}
		case sObjFirst, sObjKey:
			m.State, m.IsKey = sStr, true
		default:
			m.State, m.IsKey, m.Seen = sStr, false, true
		}
		return true
	case aLBrace, aLBrack:
		if m.Depth >= maxDepth {
			return false
		}
		if act == aLBrace {
			m.Stack[m.Depth] = '{'
			m.State = sObjFirst
		} else {
			m.Stack[m.Depth] = '['
			m.State = sArrFirst
		}
		m.Depth++
		m.Seen = true
		return true
	case aRBrack, aRBrace:
		// sArrFirst / sObjFirst close the container just opened; sAfter must match the stack
		if m.Depth == 0 {
			return false
		}
		top := m.Stack[m.Depth-1]
		if (act == aRBrack) != (top == '[') {
			return false
		}
		m.Depth--
		m.State = sAfter
		return true
	case aMinus:
		m.State, m.Seen = sNeg, true
		return true
	case aZero:
		m.State, m.Seen = sZero, true
		return true
	case aDigit:
		switch m.State {
		case sValue, sArrFirst, sNeg:
			m.State, m.Seen = sInt, true
		case sDot:
			m.State = sFrac
		case sE, sESign:
			m.State = sExp
		}
		return true
	case aTrue:
		m.State, m.Lit, m.LitPos, m.Seen = sLit, "true", 1, true
		return true
	case aFalse:
		m.State, m.Lit, m.LitPos, m.Seen = sLit, "false", 1, true
		return true
	case aNull:
		m.State, m.Lit, m.LitPos, m.Seen = sLit, "null", 1, true
		return true
	case aColon:
		m.State = sValue
		return true
	case aComma:
		if m.Depth == 0 {
			return false
		}
		if m.inObject() {
			m.State = sObjKey
		} else {
			m.State = sValue
		}
		return true
	case aBackslash:
		m.State = sEsc
		return true
	case aEscSimple:
		m.State = sStr
		return true
	case aEscU:
		m.State, m.HexLeft = sU, 4
		return true
	case aHex:
		m.HexLeft--
		if m.HexLeft == 0 {
			m.State = sStr
		}
		return true
	case aDot:
		m.State = sDot
		return true
	case aExp:
		m.State = sE
		return true
	case aSign:
		m.State = sESign
		return true
	}
	return false
}

// AtEnd classifies the end of input.
func (m *Machine) AtEnd() int {
	if !m.Seen {
		return NoDoc
	}
	if m.Depth == 0 {
		switch m.State {
		case sAfter, sZero, sInt, sFrac, sExp:
			return Accept
		}
	}
	return Incomplete
}

// Classify decides membership of buf in "optional BOM, ws, one JSON text, ws".
func Classify(buf []byte) Outcome {
	off := 0
	bom := false
	if len(buf) >= 1 && buf[0] == 0xEF {
		// a BOM must be complete
		bom = true
		if len(buf) < 2 {
			return Outcome{Kind: Incomplete, BOM: true}
		}
		if buf[1] != 0xBB {
			return Outcome{Kind: Reject, At: 1, BOM: true}
		}
		if len(buf) < 3 {
			return Outcome{Kind: Incomplete, BOM: true}
		}
		if buf[2] != 0xBF {
			return Outcome{Kind: Reject, At: 2, BOM: true}
		}
		off = 3
	}
	var m Machine
	m.Init()
	for i := off; i < len(buf); i++ {
		if !m.Feed(buf[i]) {
			return Outcome{Kind: Reject, At: i, Trace: string(m.Trace), Depth: m.Depth, BOM: bom}
		}
	}
	return Outcome{Kind: m.AtEnd(), At: len(buf), Trace: string(m.Trace), Depth: m.Depth, BOM: bom}
}

// LineCol converts an offset to the 1-based line / byte column convention
// of the property (lines end at '\n').
func LineCol(buf []byte, at int) (line, col int) {
	line = 1
	last := -1
	for i := 0; i < at && i < len(buf); i++ {
		if buf[i] == '\n' {
			line++
			last = i
		}
	}
	return line, at - last
}

// ClassSymbol names the reference byte class of b (one character). The
// class index is concretised by the caller (vx.Concrete) so that the
// symbol can be used in a finding signature.
func ClassIndex(b byte) int    { return int(class[b]) }
func ClassSymbol(i int) string { return classSymbols[i : i+1] }
