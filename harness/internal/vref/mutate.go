package vref

// Reference mutations on simple data, used as the oracle for Set / Del /
// Remove / Modify (C13). All functions work on a private deep copy.

// Copy returns a deep copy of simple data.
func Copy(v any) any {
	switch tv := v.(type) {
	case []any:
		out := make([]any, len(tv))
		for i, e := range tv {
			out[i] = Copy(e)
		}
		return out
	case map[string]any:
		out := make(map[string]any, len(tv))
		for k, e := range tv {
			out[k] = Copy(e)
		}
		return out
	}
	return v
}

// IsPrefix reports whether a is a proper prefix of b.
func IsPrefix(a, b []any) bool {
	if len(a) >= len(b) {
		return false
	}
	for i := range a {
		if a[i] != b[i] {
			return false
		}
	}
	return true
}

// SamePath reports path equality.
func SamePath(a, b []any) bool {
	if len(a) != len(b) {
		return false
	}
	for i := range a {
		if a[i] != b[i] {
			return false
		}
	}
	return true
}

// Overlapping reports whether one selected location lies inside another or
// a location is selected twice.
func Overlapping(nodes []Node) bool {
	for i := range nodes {
		for j := range nodes {
			if i != j && (IsPrefix(nodes[i].Path, nodes[j].Path) || (i < j && SamePath(nodes[i].Path, nodes[j].Path))) {
				return true
			}
		}
	}
	return false
}

func parentOf(root any, path []any) any {
	cur := root
	for _, k := range path[:len(path)-1] {
		switch tk := k.(type) {
		case string:
			cur = cur.(map[string]any)[tk]
		case int:
			cur = cur.([]any)[tk]
		}
	}
	return cur
}

// SetAll returns a copy of root with every location replaced by val(old).
func SetAll(root any, nodes []Node, val func(old any) any) any {
	out := Copy(root)
	for _, n := range nodes {
		if len(n.Path) == 0 {
			out = val(out)
			continue
		}
		p := parentOf(out, n.Path)
		switch tk := n.Path[len(n.Path)-1].(type) {
		case string:
			m := p.(map[string]any)
			m[tk] = val(m[tk])
		case int:
			a := p.([]any)
			a[tk] = val(a[tk])
		}
	}
	return out
}

// RemoveAll returns a copy of root without the given (non-overlapping)
// locations: map members are deleted; array elements are removed (nilOnly:
// replaced by nil) with the remaining elements keeping their order.
func RemoveAll(root any, nodes []Node, nilOnly bool) any {
	return removeRec(root, nil, nodes, nilOnly)
}

func selected(path []any, nodes []Node) bool {
	for _, n := range nodes {
		if SamePath(n.Path, path) {
			return true
		}
	}
	return false
}

func removeRec(v any, path []any, nodes []Node, nilOnly bool) any {
	switch tv := v.(type) {
	case []any:
		out := []any{}
		for i, e := range tv {
			p := ext(path, i)
			if selected(p, nodes) {
				if nilOnly {
					out = append(out, nil)
				}
				continue
			}
			out = append(out, removeRec(e, p, nodes, nilOnly))
		}
		return out
	case map[string]any:
		out := map[string]any{}
		for k, e := range tv {
			p := ext(path, k)
			if selected(p, nodes) {
				continue
			}
			out[k] = removeRec(e, p, nodes, nilOnly)
		}
		return out
	}
	return v
}
