package vref

import "github.com/ohler55/ojg/internal/vx"

// Decimal denotation of number literals (C02): two texts denote the same
// number iff, with concrete digit counts, their signs agree, their digit
// strings agree after aligning the decimal point (padding with zeros) and
// their exponents are equal. Digits may be symbolic.

// Lit is a parsed number literal: digits before and after the point, and
// the exponent text.
type Lit struct {
	Neg     bool
	Int     string // digits before the point (no sign)
	Frac    string // digits after the point
	ExpNeg  bool
	Exp     string // exponent digits ("" = none)
	Valid   bool
	HasFrac bool
}

func digitsOnly(s string) bool {
	for i := 0; i < len(s); i++ {
		if s[i] < '0' || s[i] > '9' {
			return false
		}
	}
	return true
}

// ParseLit splits a JSON / Go float literal into its parts.
func ParseLit(s string) Lit {
	var l Lit
	i := 0
	if i < len(s) && (s[i] == '-' || s[i] == '+') {
		l.Neg = s[i] == '-'
		i++
	}
	j := i
	for j < len(s) && s[j] >= '0' && s[j] <= '9' {
		j++
	}
	l.Int = s[i:j]
	i = j
	if i < len(s) && s[i] == '.' {
		l.HasFrac = true
		i++
		j = i
		for j < len(s) && s[j] >= '0' && s[j] <= '9' {
			j++
		}
		l.Frac = s[i:j]
		i = j
	}
	if i < len(s) && (s[i] == 'e' || s[i] == 'E') {
		i++
		if i < len(s) && (s[i] == '-' || s[i] == '+') {
			l.ExpNeg = s[i] == '-'
			i++
		}
		l.Exp = s[i:]
		if len(l.Exp) == 0 || !digitsOnly(l.Exp) {
			return l
		}
		i = len(s)
	}
	l.Valid = i == len(s) && len(l.Int)+len(l.Frac) > 0
	return l
}

// expValue is the (small) exponent as an int.
func expValue(l Lit) int {
	v := 0
	for i := 0; i < len(l.Exp) && i < 6; i++ {
		v = v*10 + int(l.Exp[i]-'0')
	}
	if l.ExpNeg {
		return -v
	}
	return v
}

func allZero(s string) bool {
	for i := 0; i < len(s); i++ {
		if s[i] != '0' {
			return false
		}
	}
	return true
}

// stripZeros removes leading zeros of a digit string with concrete first bytes
// only when they are concrete zeros (symbolic digits are kept).
func padRight(s string, n int) string {
	for len(s) < n {
		s += "0"
	}
	return s
}

func padLeft(s string, n int) string {
	for len(s) < n {
		s = "0" + s
	}
	return s
}

func zeros(n int) string { return padRight("", n) }

// SameNumber: a and b denote the same decimal number (exponents compared
// as written after evaluation, mantissas digit-wise after alignment). The
// result is built without branching on digit values.
func SameNumber(a, b string) bool {
	la, lb := ParseLit(a), ParseLit(b)
	if !la.Valid || !lb.Valid {
		return false
	}
	if len(la.Exp) > 5 || len(lb.Exp) > 5 {
		return false
	}
	n := len(la.Frac)
	if len(lb.Frac) > n {
		n = len(lb.Frac)
	}
	m := len(la.Int)
	if len(lb.Int) > m {
		m = len(lb.Int)
	}
	ma := padLeft(la.Int, m) + padRight(la.Frac, n)
	mb := padLeft(lb.Int, m) + padRight(lb.Frac, n)
	z := zeros(m + n)
	bothZero := vx.And(vx.StrEq(ma, z), vx.StrEq(mb, z)) // +-0 whatever the exponent
	same := vx.And(la.Neg == lb.Neg, vx.And(vx.StrEq(ma, mb), expValue(la) == expValue(lb)))
	return vx.Or(bothZero, same)
}
