package vref

// Reference for alt.Diff / Compare / Match (C19): equality "up to numeric
// width and null-versus-absent object members".

func numVal(v any) (f float64, isNum bool) {
	switch t := v.(type) {
	case int:
		return float64(t), true
	case int64:
		return float64(t), true
	case int32:
		return float64(t), true
	case uint64:
		if t < 1<<53 {
			return float64(int64(t)), true // (signed conversion: cheap for the solver)
		}
		return float64(t), true
	case uint:
		if t < 1<<53 {
			return float64(int64(t)), true
		}
		return float64(t), true
	case float64:
		return t, true
	case float32:
		return float64(t), true
	}
	return 0, false
}

// DiffEqual: a and b are equal up to numeric width and nil-vs-absent members.
func DiffEqual(a, b any) bool {
	if fa, ok := numVal(a); ok {
		fb, ok2 := numVal(b)
		return ok2 && fa == fb
	}
	switch ta := a.(type) {
	case nil:
		return b == nil
	case bool:
		tb, ok := b.(bool)
		return ok && ta == tb
	case string:
		tb, ok := b.(string)
		return ok && ta == tb
	case []any:
		tb, ok := b.([]any)
		if !ok || len(ta) != len(tb) {
			return false
		}
		for i := range ta {
			if !DiffEqual(ta[i], tb[i]) {
				return false
			}
		}
		return true
	case map[string]any:
		tb, ok := b.(map[string]any)
		if !ok {
			return false
		}
		for k, va := range ta {
			if !DiffEqual(va, tb[k]) { // absent = nil
				return false
			}
		}
		for k, vb := range tb {
			if _, has := ta[k]; !has && vb != nil {
				return false
			}
		}
		return true
	}
	return false
}

// At walks path p (string keys, int indexes) from v. ok=false when the path
// leaves the tree (an absent map member yields nil, ok=true: null = absent).
func At(v any, p []any) (any, bool) {
	cur := v
	for _, k := range p {
		switch tk := k.(type) {
		case string:
			m, ok := cur.(map[string]any)
			if !ok {
				return nil, false
			}
			cur = m[tk]
		case int:
			a, ok := cur.([]any)
			if !ok || tk < 0 || tk >= len(a) {
				return nil, false
			}
			cur = a[tk]
		default:
			return nil, false
		}
	}
	return cur, true
}

// Leaves lists the paths of all leaves (scalars, nil, empty containers) of v.
func Leaves(v any, path []any, out *[][]any) {
	switch tv := v.(type) {
	case []any:
		if len(tv) == 0 {
			*out = append(*out, path)
		}
		for i, e := range tv {
			Leaves(e, ext(path, i), out)
		}
	case map[string]any:
		if len(tv) == 0 {
			*out = append(*out, path)
		}
		for k, e := range tv {
			Leaves(e, ext(path, k), out)
		}
	default:
		*out = append(*out, path)
	}
}

// Covers reports whether pattern (which may contain nil wildcards) is a
// prefix of (or equal to) path.
func Covers(pattern, path []any) bool {
	if len(pattern) > len(path) {
		return false
	}
	for i, k := range pattern {
		if k == nil {
			continue
		}
		if k != path[i] {
			return false
		}
	}
	return true
}

// RefMatch: every member of the fingerprint f is matched in t.
func RefMatch(f, t any) bool {
	if ff, ok := numVal(f); ok {
		ft, ok2 := numVal(t)
		return ok2 && ff == ft
	}
	switch tf := f.(type) {
	case nil:
		return t == nil
	case bool:
		tt, ok := t.(bool)
		return ok && tf == tt
	case string:
		tt, ok := t.(string)
		return ok && tf == tt
	case []any:
		tt, ok := t.([]any)
		if !ok || len(tf) != len(tt) {
			return false
		}
		for i := range tf {
			if !RefMatch(tf[i], tt[i]) {
				return false
			}
		}
		return true
	case map[string]any:
		tt, ok := t.(map[string]any)
		if !ok {
			return false
		}
		for k, v := range tf {
			if !RefMatch(v, tt[k]) {
				return false
			}
		}
		return true
	}
	return false
}
