package vref

// Reference JSONPath selector over simple data ([]any, map[string]any and
// scalars), written from the semantics the properties state:
// child by key; index with negative-from-end; wildcard; recursive descent
// through every nested container; union members in listed order; slice
// from start (inclusive) to end (exclusive) by step, negative bounds
// counting from the end, a negative step walking downwards; filter keeping
// the elements whose predicate is true.

const (
	FChild = iota
	FNth
	FWild
	FDescent
	FUnion
	FSlice
	FFilter
	FRoot
)

// PFrag is one path fragment of the reference.
type PFrag struct {
	Kind   int
	Key    string
	N      int
	Union  []any // string or int members
	Slice  []int // 1..3 numbers: start, end, step
	// InclEnd selects with SliceIndexesIncl instead of SliceIndexes (only
	// used to label findings, never as the oracle).
	InclEnd bool
	// Grid selects every index on the slice's grid from its start on, whatever
	// the end is (SliceIndexesGrid): a superset of any reading of the end.
	Grid bool
	Filter func(v any) bool
}

// Node is a selected location: its value and its normalized path
// (string keys and non-negative int indexes).
type Node struct {
	Val  any
	Path []any
}

// Selection is the result of the reference selector.
type Selection struct {
	Nodes       []Node
	Ordered     bool // false when the order of Nodes is not determined (map traversal, descent)
	Unspecified bool // the path leaves the region the documentation specifies
}

// MaxEnd mirrors "no end given".
const MaxEnd = int(^uint(0) >> 1)

func ext(p []any, k any) []any {
	n := make([]any, len(p)+1)
	copy(n, p)
	n[len(p)] = k
	return n
}

// SliceIndexes returns the indexes a slice selects in an array of n
// elements, in selection order; ok=false where the meaning is not specified
// (negative step with a start at or beyond the end of the array).
func SliceIndexes(sl []int, n int) (idx []int, ok bool) {
	start, end, step := 0, MaxEnd, 1
	if len(sl) > 0 {
		start = sl[0]
	}
	if len(sl) > 1 {
		end = sl[1]
	}
	if len(sl) > 2 {
		step = sl[2]
	}
	if step == 0 {
		return nil, true
	}
	if start < 0 {
		start += n
		if start < 0 {
			start = 0
		}
	}
	if end < 0 {
		end += n
	}
	if step > 0 {
		if end > n {
			end = n
		}
		for i := start; i < end && i < n; i += step {
			idx = append(idx, i)
			if len(idx) > n {
				break
			}
		}
		return idx, true
	}
	if start >= n {
		return nil, false
	}
	if end < -1 {
		end = -1
	}
	for i := start; i > end && i >= 0; i += step {
		idx = append(idx, i)
		if len(idx) > n {
			break
		}
	}
	return idx, true
}

// SliceIndexesIncl is the (documented-as-known-finding) reading of a slice by
// ojg's mutating operations: the end is inclusive, a missing end means the
// last element, an end beyond the array is clamped to the last element and a
// start outside the array selects nothing. It labels findings only.
func SliceIndexesIncl(sl []int, n int) (idx []int) {
	start, end, step := 0, -1, 1
	if len(sl) > 0 {
		start = sl[0]
	}
	if len(sl) > 1 {
		end = sl[1]
	}
	if len(sl) > 2 {
		step = sl[2]
	}
	if start < 0 {
		start += n
	}
	if end < 0 {
		end += n
	}
	if n <= end {
		end = n - 1
	}
	if start < 0 || end < 0 || n <= start || step == 0 {
		return nil
	}
	if step > 0 {
		for i := start; i <= end; i += step {
			idx = append(idx, i)
		}
		return idx
	}
	for i := start; i >= end; i += step {
		idx = append(idx, i)
	}
	return idx
}

// SliceIndexesGrid returns every index of an n element array that lies on
// the grid start, start+step, start+2*step, ... (start normalized, any end).
func SliceIndexesGrid(sl []int, n int) (idx []int) {
	start, step := 0, 1
	if len(sl) > 0 {
		start = sl[0]
	}
	if len(sl) > 2 {
		step = sl[2]
	}
	if step == 0 {
		return nil
	}
	if start < 0 {
		start += n
		if start < 0 {
			start = 0
		}
	}
	if step > 0 {
		for i := start; i < n; i += step {
			idx = append(idx, i)
			if len(idx) > n {
				break
			}
		}
		return idx
	}
	if start >= n {
		start = n - 1
	}
	for i := start; i >= 0; i += step {
		idx = append(idx, i)
		if len(idx) > n {
			break
		}
	}
	return idx
}

func descend(n Node, out *[]Node) {
	*out = append(*out, n)
	switch tv := n.Val.(type) {
	case []any:
		for i, e := range tv {
			descend(Node{e, ext(n.Path, i)}, out)
		}
	case map[string]any:
		for k, e := range tv {
			descend(Node{e, ext(n.Path, k)}, out)
		}
	}
}

// Select applies frags to root.
func Select(frags []PFrag, root any) Selection {
	sel := Selection{Ordered: true}
	cur := []Node{{root, nil}}
	for _, f := range frags {
		var next []Node
		for _, n := range cur {
			switch f.Kind {
			case FRoot:
				next = append(next, n)
			case FChild:
				if m, ok := n.Val.(map[string]any); ok {
					if v, has := m[f.Key]; has {
						next = append(next, Node{v, ext(n.Path, f.Key)})
					}
				}
			case FNth:
				if a, ok := n.Val.([]any); ok {
					i := f.N
					if i < 0 {
						i += len(a)
					}
					if 0 <= i && i < len(a) {
						next = append(next, Node{a[i], ext(n.Path, i)})
					}
				}
			case FWild:
				switch tv := n.Val.(type) {
				case []any:
					for i, e := range tv {
						next = append(next, Node{e, ext(n.Path, i)})
					}
				case map[string]any:
					if len(tv) > 1 {
						sel.Ordered = false
					}
					for k, e := range tv {
						next = append(next, Node{e, ext(n.Path, k)})
					}
				}
			case FDescent:
				sel.Ordered = false
				descend(n, &next)
			case FUnion:
				for _, u := range f.Union {
					switch tu := u.(type) {
					case string:
						if m, ok := n.Val.(map[string]any); ok {
							if v, has := m[tu]; has {
								next = append(next, Node{v, ext(n.Path, tu)})
							}
						}
					case int:
						if a, ok := n.Val.([]any); ok {
							i := tu
							if i < 0 {
								i += len(a)
							}
							if 0 <= i && i < len(a) {
								next = append(next, Node{a[i], ext(n.Path, i)})
							}
						}
					}
				}
			case FSlice:
				if a, ok := n.Val.([]any); ok {
					idx, spec := SliceIndexes(f.Slice, len(a))
					if f.InclEnd {
						idx, spec = SliceIndexesIncl(f.Slice, len(a)), true
					}
					if f.Grid {
						idx, spec = SliceIndexesGrid(f.Slice, len(a)), true
					}
					if !spec {
						sel.Unspecified = true
					}
					for _, i := range idx {
						next = append(next, Node{a[i], ext(n.Path, i)})
					}
				}
			case FFilter:
				switch tv := n.Val.(type) {
				case []any:
					for i, e := range tv {
						if f.Filter(e) {
							next = append(next, Node{e, ext(n.Path, i)})
						}
					}
				case map[string]any:
					if len(tv) > 1 {
						sel.Ordered = false
					}
					for k, e := range tv {
						if f.Filter(e) {
							next = append(next, Node{e, ext(n.Path, k)})
						}
					}
				}
			}
		}
		cur = next
	}
	sel.Nodes = cur
	return sel
}

// SameValues compares the selected values with got: as lists when the
// order is determined, otherwise as multisets. Values are compared with
// TreeEqual; data used by the harnesses has distinct leaves.
func SameValues(sel Selection, got []any) bool {
	if len(sel.Nodes) != len(got) {
		return false
	}
	if sel.Ordered {
		for i := range got {
			if !TreeEqual(sel.Nodes[i].Val, got[i]) {
				return false
			}
		}
		return true
	}
	used := make([]bool, len(got))
	for _, n := range sel.Nodes {
		found := false
		for j := range got {
			if !used[j] && TreeEqual(n.Val, got[j]) {
				used[j] = true
				found = true
				break
			}
		}
		if !found {
			return false
		}
	}
	return true
}
