//go:build verifsym

package vx

func aliasNative(a, b any) bool { return false }
