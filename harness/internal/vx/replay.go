//go:build !verifsym

package vx

import (
	"encoding/json"
	"fmt"
	"os"
	"reflect"
	"testing"
	"time"
)

func aliasNative(a, b any) bool {
	va, vb := reflect.ValueOf(a), reflect.ValueOf(b)
	if !va.IsValid() || !vb.IsValid() || va.Kind() != vb.Kind() {
		return false
	}
	switch va.Kind() {
	case reflect.Slice:
		if va.Cap() == 0 || vb.Cap() == 0 {
			return false
		}
		ea := va.Slice3(0, va.Cap(), va.Cap()).Index(va.Cap() - 1).Addr().Pointer()
		eb := vb.Slice3(0, vb.Cap(), vb.Cap()).Index(vb.Cap() - 1).Addr().Pointer()
		return ea == eb
	case reflect.Map, reflect.Pointer:
		return va.Pointer() == vb.Pointer() && va.Pointer() != 0
	}
	return false
}

// Result is what a native replay of one case produced.
type Result struct {
	ID       string      `json:"id"`
	Harness  string      `json:"harness"`
	Failed   []string    `json:"failed"`
	Observed [][2]string `json:"observed"`
	Covers   []string    `json:"covers"`
	Panic    string      `json:"panic,omitempty"`
	Vacuous  bool        `json:"vacuous,omitempty"`
	Missing  []string    `json:"missing,omitempty"`
	Timeout  bool        `json:"timeout,omitempty"`
}

// RunCase executes one harness natively under a replay case.
func RunCase(c *Case, h func()) (res Result) {
	st := begin(c)
	res.ID, res.Harness = c.ID, c.Harness
	defer func() {
		if r := recover(); r != nil {
			if _, ok := r.(assumeFalse); ok {
				res.Vacuous = true
			} else {
				res.Panic = fmt.Sprint(r)
				st.Failed = append(st.Failed, "uncaught-panic")
			}
		}
		res.Failed, res.Observed, res.Covers, res.Missing = st.Failed, st.Observed, st.Covers, st.missing
		cur = nil
	}()
	h()
	return
}

// ReplayMain is called from the generated TestVerifReplay: it reads the
// cases file named by VERIF_REPLAY, runs each case and writes the results
// to VERIF_REPLAY_OUT.
func ReplayMain(t *testing.T, harnesses map[string]func()) {
	path := os.Getenv("VERIF_REPLAY")
	if path == "" {
		t.Skip("VERIF_REPLAY not set")
	}
	b, err := os.ReadFile(path)
	if err != nil {
		t.Fatal(err)
	}
	var cases []*Case
	if err := json.Unmarshal(b, &cases); err != nil {
		t.Fatal(err)
	}
	out := os.Getenv("VERIF_REPLAY_OUT")
	var f *os.File
	if out != "" {
		f, err = os.Create(out)
		if err != nil {
			t.Fatal(err)
		}
		defer f.Close()
	}
	for _, c := range cases {
		h, ok := harnesses[c.Harness]
		if !ok {
			t.Fatalf("unknown harness %s", c.Harness)
		}
		// a case that does not return within the limit is reported as a failed
		// "terminates" assertion; the process then exits (the hung goroutine
		// cannot be stopped) and the runner restarts with the remaining cases
		done := make(chan Result, 1)
		go func(c *Case, h func()) { done <- RunCase(c, h) }(c, h)
		var r Result
		timedOut := false
		select {
		case r = <-done:
		case <-time.After(8 * time.Second):
			r = Result{ID: c.ID, Harness: c.Harness, Failed: []string{"terminates"}, Timeout: true}
			timedOut = true
		}
		jb, _ := json.Marshal(r)
		if f != nil {
			f.Write(append(jb, '\n'))
			f.Sync()
		} else {
			fmt.Println(string(jb))
		}
		if timedOut {
			if f != nil {
				f.Close()
			}
			os.Exit(0)
		}
	}
}
