// Package vx holds the intrinsics used by verification harnesses.
//
// Under the symbolic executor (verif/engine) every function here is
// intercepted by name and given symbolic meaning. Compiled natively the
// same functions read their values from the replay case selected by the
// environment (VERIF_REPLAY=<file>, see replay.go), so that a solver
// model can be re-run against the real build.
package vx

import (
	"fmt"
	"math"
	"os"
	"strconv"
)

func f64frombits(b uint64) float64 { return math.Float64frombits(b) }

// Case is one replayable execution: the values of the symbolic inputs
// (by name) and the sequence of vx.Choose results.
type Case struct {
	Harness string            `json:"harness"`
	Inputs  map[string]uint64 `json:"inputs"`
	Choices []int             `json:"choices"`
	Params  map[string]int    `json:"params,omitempty"`
	Expect  string            `json:"expect,omitempty"` // assertion id expected to fail ("" = none)
	ID      string            `json:"id,omitempty"`
}

type state struct {
	c        *Case
	seq      map[string]int
	choice   int
	Failed   []string
	Observed [][2]string
	Covers   []string
	Keys     [][2]string
	missing  []string
}

var cur *state

func begin(c *Case) *state {
	cur = &state{c: c, seq: map[string]int{}}
	return cur
}

func next(tag string, suffix string) uint64 {
	if cur == nil {
		panic("vx: no replay case active")
	}
	n := cur.seq[tag]
	cur.seq[tag] = n + 1
	name := fmt.Sprintf("%s_%d_%s", sanitize(tag), n, suffix)
	v, ok := cur.c.Inputs[name]
	if !ok {
		cur.missing = append(cur.missing, name)
	}
	return v
}

func sanitize(s string) string {
	b := []byte(s)
	for i, c := range b {
		if !(c >= 'a' && c <= 'z' || c >= 'A' && c <= 'Z' || c >= '0' && c <= '9' || c == '_') {
			b[i] = '_'
		}
	}
	return string(b)
}

// Param returns a tier-dependent bound of the harness (set by the runner).
func Param(name string, def int) int {
	if cur != nil && cur.c.Params != nil {
		if v, ok := cur.c.Params[name]; ok {
			return v
		}
	}
	return def
}

// Symbolic reports whether the code runs under the symbolic executor.
func Symbolic() bool { return false }

func Byte(tag string) byte { return byte(next(tag, "b8")) }

// ByteIn returns a symbolic byte in [lo,hi].
func ByteIn(tag string, lo, hi byte) byte { return byte(next(tag, "b8")) }

// Digit returns a symbolic ASCII decimal digit in ['0'+lo, '9'].
func Digit(tag string, lo int) byte { return '0' + byte(next(tag, "b4")) }

func Uint8(tag string) uint8 { return uint8(next(tag, "b8")) }
func Bytes(tag string, n int) []byte {
	out := make([]byte, n)
	for i := range out {
		out[i] = byte(next(tag, "b8"))
	}
	return out
}
func String(tag string, n int) string { return string(Bytes(tag, n)) }
func Int(tag string) int              { return int(next(tag, "b64")) }
func Int64(tag string) int64          { return int64(next(tag, "b64")) }
func Uint64(tag string) uint64        { return next(tag, "b64") }
func Int32(tag string) int32          { return int32(next(tag, "b32")) }
func Rune(tag string) rune            { return rune(next(tag, "b32")) }

// IntIn returns a symbolic int in [lo,hi] (natively: the replayed value of
// the narrowest signed bit-vector that holds the range).
func IntIn(tag string, lo, hi int) int {
	w := 64
	for k := 2; k < 64; k++ {
		if lo >= -(1<<(k-1)) && hi <= 1<<(k-1)-1 {
			w = k
			break
		}
	}
	v := next(tag, fmt.Sprintf("b%d", w))
	if w < 64 {
		sh := uint(64 - w)
		return int(int64(v<<sh) >> sh)
	}
	return int(v)
}

// FloatText returns the decimal text a parsed float64 stands for. Under the
// executor it is the exact text the implementation handed to
// strconv.ParseFloat; natively it is the shortest decimal of f (whose
// denotation rounds to the same float64).
func FloatText(f float64) (string, bool) { return strconv.FormatFloat(f, 'g', -1, 64), true }

func Bool(tag string) bool       { return next(tag, "o") != 0 }
func Float64(tag string) float64 { return f64frombits(next(tag, "f64")) }

// Choose forks concretely over 0..n-1.
func Choose(tag string, n int) int {
	if cur == nil {
		panic("vx: no replay case active")
	}
	if cur.choice >= len(cur.c.Choices) {
		panic(fmt.Sprintf("vx: replay case has no choice #%d (tag %s)", cur.choice, tag))
	}
	v := cur.c.Choices[cur.choice]
	cur.choice++
	if v < 0 || v >= n {
		panic(fmt.Sprintf("vx: choice %d out of range %d (tag %s)", v, n, tag))
	}
	return v
}

type assumeFalse struct{}

// Assume restricts the inputs; natively a false assumption ends the case.
func Assume(c bool) {
	if !c {
		panic(assumeFalse{})
	}
}

// Assert states the property.
func Assert(id string, c bool) {
	if !c {
		cur.Failed = append(cur.Failed, id)
	}
}

// Fail is Assert(id, false).
func Fail(id string) { cur.Failed = append(cur.Failed, id) }

// Cover is a reachability witness.
func Cover(id string, c bool) {
	if c {
		cur.Covers = append(cur.Covers, id)
	}
}

// Key adds a pair to the finding signature.
func Key(k string, v any) { cur.Keys = append(cur.Keys, [2]string{k, fmt.Sprint(v)}) }

func And(a, b bool) bool     { return a && b }
func Or(a, b bool) bool      { return a || b }
func Not(a bool) bool        { return !a }
func Implies(a, b bool) bool { return !a || b }
func Iff(a, b bool) bool     { return a == b }
func IteInt(c bool, a, b int) int {
	if c {
		return a
	}
	return b
}
func IteByte(c bool, a, b byte) byte {
	if c {
		return a
	}
	return b
}
func IteBool(c bool, a, b bool) bool {
	if c {
		return a
	}
	return b
}
func BytesEq(a, b []byte) bool { return string(a) == string(b) }
func StrEq(a, b string) bool   { return a == b }

// Catch runs f and reports whether it panicked.
func Catch(f func()) (panicked bool) {
	defer func() {
		if r := recover(); r != nil {
			if _, ok := r.(assumeFalse); ok {
				panic(r)
			}
			panicked = true
		}
	}()
	f()
	return false
}

// CatchVal is Catch that also returns the panic value.
func CatchVal(f func()) (panicked bool, val any) {
	defer func() {
		if r := recover(); r != nil {
			if _, ok := r.(assumeFalse); ok {
				panic(r)
			}
			panicked = true
			val = r
		}
	}()
	f()
	return false, nil
}

// IsRuntimeError reports whether a recovered value is a Go runtime fault.
func IsRuntimeError(v any) bool {
	type rte interface {
		error
		RuntimeError()
	}
	_, ok := v.(rte)
	return ok
}

// Observe records an output for translator validation.
func Observe(tag string, v any) {
	var s string
	switch x := v.(type) {
	case []byte:
		s = fmt.Sprintf("%x", x)
	case string:
		s = fmt.Sprintf("%x", x)
	case bool:
		if x {
			s = "1"
		} else {
			s = "0"
		}
	case int:
		s = fmt.Sprint(uint64(x))
	case int64:
		s = fmt.Sprint(uint64(x))
	case uint64:
		s = fmt.Sprint(x)
	case int32:
		s = fmt.Sprint(uint64(uint32(x)))
	case uint8:
		s = fmt.Sprint(uint64(x))
	default:
		return
	}
	cur.Observed = append(cur.Observed, [2]string{tag, s})
}

// Alias reports whether two slices / maps / pointers share storage. Only
// the symbolic executor can answer in general; natively it is best effort.
func Alias(a, b any) bool { return aliasNative(a, b) }

// Concrete forks over the feasible values of x (engine); identity natively.
func Concrete(x int) int { return x }

func PoolFork(on bool)  {}
func MapOrders(on bool) {}

func debugf(format string, args ...any) {
	if os.Getenv("VERIF_DEBUG") != "" {
		fmt.Fprintf(os.Stderr, format, args...)
	}
}
