package oj

import (
	"io"

	"github.com/ohler55/ojg/gen"
	"github.com/ohler55/ojg/internal/vref"
	"github.com/ohler55/ojg/internal/vx"
)

// chunkReader delivers data in the given chunk sizes (then EOF).
type chunkReader struct {
	data   []byte
	chunks []int // successive Read sizes; after they are used up the rest is delivered at once
	pos    int
	ci     int
}

func (r *chunkReader) Read(p []byte) (int, error) {
	if r.pos >= len(r.data) {
		return 0, io.EOF
	}
	n := len(r.data) - r.pos
	if r.ci < len(r.chunks) {
		if r.chunks[r.ci] < n {
			n = r.chunks[r.ci]
		}
		r.ci++
	}
	if len(p) < n {
		n = len(p)
	}
	copy(p, r.data[r.pos:r.pos+n])
	r.pos += n
	return n, nil
}

const (
	feParse = iota
	feParseReader
	feValidate
	feTokenize
	feGen
	numFE
)

var feNames = [...]string{"oj.Parse", "oj.ParseReader", "oj.Validate", "oj.Tokenize", "gen.Parse"}

type feResult struct {
	err    error
	pan    bool
	hasPos bool
	line   int
	col    int
}

// runFE runs one strict-JSON front-end in single-document mode on a private copy of buf.
func runFE(fe int, buf []byte, chunks []int) (r feResult) {
	in := append([]byte{}, buf...)
	r.pan = vx.Catch(func() {
		switch fe {
		case feParse:
			p := &Parser{}
			_, r.err = p.Parse(in)
		case feParseReader:
			p := &Parser{}
			_, r.err = p.ParseReader(&chunkReader{data: in, chunks: chunks})
		case feValidate:
			v := &Validator{OnlyOne: true}
			r.err = v.Validate(in)
		case feTokenize:
			t := &Tokenizer{}
			t.OnlyOne = true
			r.err = t.Parse(in, &ZeroHandler{})
		case feGen:
			p := &gen.Parser{}
			_, r.err = p.Parse(in)
		}
	})
	if pe, ok := r.err.(*ParseError); ok {
		r.hasPos, r.line, r.col = true, pe.Line, pe.Column
	} else if pe, ok := r.err.(*gen.ParseError); ok {
		r.hasPos, r.line, r.col = true, pe.Line, pe.Column
	}
	return
}

// mismatch reports whether any front-end deviates (used to decide whether the
// finer signature keys are worth a fork).
func mismatch(want vref.Outcome, res *[numFE]feResult) bool {
	for fe := 0; fe < numFE; fe++ {
		if res[fe].pan || (res[fe].err == nil) != want.OK() {
			return true
		}
	}
	return false
}

// signature adds the path-determined keys that identify a finding.
func signature(buf []byte, want vref.Outcome, bad bool) {
	vx.Key("ref", want.KindName())
	vx.Key("trace", want.Trace)
	vx.Key("depth", want.Depth)
	vx.Key("bom", want.BOM)
	if bad && want.Kind == vref.Reject {
		// class of the offending byte (forks only on failing paths)
		vx.Key("rejcls", vref.ClassSymbol(vx.Concrete(vref.ClassIndex(buf[want.At]))))
	}
}

// checkFE states C01 (accept iff valid), C06 (no panic) and C09 (position) for one front-end.
func checkFE(fe int, buf []byte, want vref.Outcome, r feResult) {
	name := feNames[fe]
	vx.Assert("no-panic:"+name, !r.pan)
	if r.pan {
		return
	}
	vx.Observe("err:"+name, r.err != nil)
	vx.Assert("accept-iff-valid:"+name, (r.err == nil) == want.OK())
	if r.err != nil && !want.OK() && r.hasPos && !(len(buf) > 0 && buf[0] == 0xEF) {
		// C09: the first offending byte, or just past the end when only incomplete
		line, col := vref.LineCol(buf, want.At)
		vx.Observe("line:"+name, r.line)
		vx.Observe("col:"+name, r.col)
		good := vx.And(r.line == line, r.col == col)
		if !good && len(buf) > 0 {
			// class of the last byte (forks only on failing paths)
			vx.Key("lastcls", vref.ClassSymbol(vx.Concrete(vref.ClassIndex(buf[len(buf)-1]))))
		}
		vx.Assert("pos:"+name, good)
	}
}

// VerifJSON_Direct: every byte string of length <= N through all five
// strict front-ends, against the RFC 8259 reference (C01, C06, C09).
func VerifJSON_Direct() {
	n := vx.Choose("len", vx.Param("N", 3)+1)
	buf := vx.Bytes("in", n)
	var res [numFE]feResult
	for fe := 0; fe < numFE; fe++ {
		res[fe] = runFE(fe, buf, nil)
	}
	want := vref.Classify(buf)
	signature(buf, want, mismatch(want, &res))
	for fe := 0; fe < numFE; fe++ {
		checkFE(fe, buf, want, res[fe])
	}
	vx.Cover("accepted", want.Kind == vref.Accept)
	vx.Cover("rejected", want.Kind == vref.Reject)
	vx.Cover("incomplete", want.Kind == vref.Incomplete)
}
