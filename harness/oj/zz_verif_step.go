package oj

import (
	"github.com/ohler55/ojg/internal/vref"
	"github.com/ohler55/ojg/internal/vx"
)

// Inductive step of the oj.Validator state machine (C01, C06 for inputs of
// ANY length and nesting depth delivered in reads of <= L bytes).
//
// The reference recogniser (vref.Machine) is a byte-at-a-time automaton
// with an explicit configuration A = (state, key/value string, hex digits
// left, literal position, container stack). For every configuration A a
// canonical prefix p(A) is built (a shortest JSON prefix that drives the
// reference into A); the canonical validator state C(A) is what the REAL
// validateBuffer leaves behind after p(A). The harness proves, for every A
// (stack depth <= D, where depth D stands for "D or deeper": its bottom
// entry is an unconstrained symbolic byte) and every chunk w of <= L
// symbolic bytes:
//
//   validateBuffer(w) from C(A) [dead fields havocked]
//     - does not panic,
//     - returns an error  iff  the reference rejects some byte of w from A,
//     - otherwise ends in a state equal to C(A') on the live fields, where
//       A' is the reference configuration after w,
//     - and validateBuffer(nil, last=true) from there errs iff A' is not an
//       accepting / no-document end.
//
// By induction over the chunks of a streamed input this gives C01's
// accept-iff-valid and C06's no-panic for ValidateReader on inputs of any
// length whose reads are <= L bytes each. Every counterexample is the
// concrete input p(A) followed by w, split at that point.

type stepSub struct {
	state   int
	isKey   bool
	hexLeft int
	lit     string
	litPos  int
	name    string
}

// reference automaton state numbers (vref keeps them unexported; the order is
// fixed by vref/json.go and checked by the prefix-reaches-config assertion)
const (
	rsValue = iota
	rsArrFirst
	rsObjFirst
	rsObjKey
	rsColon
	rsAfter
	rsStr
	rsEsc
	rsU
	rsNeg
	rsZero
	rsInt
	rsDot
	rsFrac
	rsE
	rsESign
	rsExp
	rsLit
)

var stepSubs = []stepSub{
	{state: rsValue, name: "value"}, {state: rsArrFirst, name: "arr-first"}, {state: rsObjFirst, name: "obj-first"},
	{state: rsObjKey, name: "obj-key"}, {state: rsColon, name: "colon"}, {state: rsAfter, name: "after"},
	{state: rsStr, name: "str"}, {state: rsStr, isKey: true, name: "keystr"},
	{state: rsEsc, name: "esc"}, {state: rsEsc, isKey: true, name: "keyesc"},
	{state: rsU, hexLeft: 4, name: "u4"}, {state: rsU, hexLeft: 3, name: "u3"}, {state: rsU, hexLeft: 2, name: "u2"}, {state: rsU, hexLeft: 1, name: "u1"},
	{state: rsU, hexLeft: 4, isKey: true, name: "keyu4"}, {state: rsU, hexLeft: 2, isKey: true, name: "keyu2"}, {state: rsU, hexLeft: 1, isKey: true, name: "keyu1"},
	{state: rsNeg, name: "neg"}, {state: rsZero, name: "zero"}, {state: rsInt, name: "int"}, {state: rsDot, name: "dot"},
	{state: rsFrac, name: "frac"}, {state: rsE, name: "e"}, {state: rsESign, name: "esign"}, {state: rsExp, name: "exp"},
	{state: rsLit, lit: "true", litPos: 1, name: "t"}, {state: rsLit, lit: "true", litPos: 2, name: "tr"}, {state: rsLit, lit: "true", litPos: 3, name: "tru"},
	{state: rsLit, lit: "false", litPos: 1, name: "f"}, {state: rsLit, lit: "false", litPos: 2, name: "fa"}, {state: rsLit, lit: "false", litPos: 3, name: "fal"}, {state: rsLit, lit: "false", litPos: 4, name: "fals"},
	{state: rsLit, lit: "null", litPos: 1, name: "n"}, {state: rsLit, lit: "null", litPos: 2, name: "nu"}, {state: rsLit, lit: "null", litPos: 3, name: "nul"},
}

// stepValid says whether a sub-state can occur on top of the given stack.
func stepValid(s stepSub, stack []byte) bool {
	top := byte(0)
	if len(stack) > 0 {
		top = stack[len(stack)-1]
	}
	switch {
	case s.state == rsObjFirst || s.state == rsObjKey || s.state == rsColon || s.isKey:
		return top == '{'
	case s.state == rsArrFirst:
		return top == '['
	}
	return true
}

// stepPrefix builds the canonical JSON prefix that drives the reference
// automaton into the configuration (s, stack).
func stepPrefix(s stepSub, stack []byte) []byte {
	var p []byte
	for i, k := range stack {
		if k == '[' {
			p = append(p, '[')
			continue
		}
		if i < len(stack)-1 {
			p = append(p, `{"k":`...)
			continue
		}
		switch {
		case s.state == rsObjFirst || s.isKey:
			p = append(p, '{')
		case s.state == rsObjKey:
			p = append(p, `{"k":1,`...)
		case s.state == rsColon:
			p = append(p, `{"k"`...)
		default:
			p = append(p, `{"k":`...)
		}
	}
	switch s.state {
	case rsValue:
		if len(stack) > 0 && stack[len(stack)-1] == '[' {
			p = append(p, "1,"...)
		}
	case rsAfter:
		p = append(p, "1 "...)
	case rsStr:
		p = append(p, `"a`...)
	case rsEsc:
		p = append(p, `"a\`...)
	case rsU:
		p = append(p, `"\u`...)
		for i := 0; i < 4-s.hexLeft; i++ {
			p = append(p, '0')
		}
	case rsNeg:
		p = append(p, '-')
	case rsZero:
		p = append(p, '0')
	case rsInt:
		p = append(p, '1')
	case rsDot:
		p = append(p, "1."...)
	case rsFrac:
		p = append(p, "1.5"...)
	case rsE:
		p = append(p, "1e"...)
	case rsESign:
		p = append(p, "1e+"...)
	case rsExp:
		p = append(p, "1e5"...)
	case rsLit:
		p = append(p, s.lit[:s.litPos]...)
	}
	return p
}

// subOf reads the configuration of a reference machine.
func subOf(m *vref.Machine) (stepSub, []byte) {
	s := stepSub{state: m.State}
	switch m.State {
	case rsStr, rsEsc:
		s.isKey = m.IsKey
	case rsU:
		s.isKey, s.hexLeft = m.IsKey, m.HexLeft
	case rsLit:
		s.lit, s.litPos = m.Lit, m.LitPos
	}
	return s, append([]byte{}, m.Stack[:m.Depth]...)
}

func sameSub(a, b stepSub) bool {
	return a.state == b.state && a.isKey == b.isKey && a.hexLeft == b.hexLeft && a.lit == b.lit && a.litPos == b.litPos
}

func stringish(state int) bool { return state == rsStr || state == rsEsc || state == rsU }

// canonValidator runs the real validator over the canonical prefix.
func canonValidator(prefix []byte) (*Validator, error) {
	v := &Validator{OnlyOne: true}
	v.stack = make([]byte, 0, stackMinSize)
	v.noff = -1
	v.line = 1
	v.mode = valueMap
	err := v.validateBuffer(prefix, false)
	return v, err
}

var stepNextModes = [...]string{"", colonMap, afterMap}

// VerifStep_Validator: one inductive step of oj.Validator from every
// canonical state, against the reference automaton.
func VerifStep_Validator() {
	L := vx.Param("L", 2)
	D := L + 1
	si := vx.Choose("sub", len(stepSubs))
	sub := stepSubs[si]
	d := vx.Choose("depth", D+1)
	stack := make([]byte, d)
	for i := range stack {
		if vx.Choose("kind", 2) == 0 {
			stack[i] = '['
		} else {
			stack[i] = '{'
		}
	}
	if !stepValid(sub, stack) {
		return
	}
	vx.Key("sub", sub.name)
	vx.Key("stack", string(stack))
	prefix := stepPrefix(sub, stack)

	// the reference reaches exactly this configuration through the prefix
	var ref vref.Machine
	ref.Init()
	okp := true
	for _, b := range prefix {
		okp = okp && ref.Step(b)
	}
	gotSub, gotStack := subOf(&ref)
	vx.Assert("prefix-reaches-config", okp && sameSub(gotSub, sub) && string(gotStack) == string(stack))

	// the canonical concrete state: the real code run over the prefix
	v, perr := canonValidator(prefix)
	vx.Assert("prefix-accepted-by-validator", perr == nil)
	if perr != nil {
		return
	}
	// havoc the fields that are claimed dead in this configuration
	if !stringish(sub.state) {
		v.nextMode = stepNextModes[vx.Choose("nextMode", len(stepNextModes))]
	}
	if sub.state != rsU && sub.state != rsLit {
		v.ri = vx.Int("ri")
	}
	v.line = vx.Int("line")
	v.noff = vx.Int("noff")
	deep := d == D
	var bottom byte
	if deep {
		// depth D stands for "D or deeper": nothing may depend on this entry
		bottom = vx.Byte("bottom")
		v.stack[0] = bottom
	}

	n := vx.Choose("len", L) + 1
	w := vx.Bytes("w", n)
	var err error
	pan := vx.Catch(func() { err = v.validateBuffer(append([]byte{}, w...), false) })
	rej := false
	for _, b := range w {
		if !ref.Step(b) {
			rej = true
			break
		}
	}
	vx.Assert("step-no-panic", !pan)
	if pan {
		return
	}
	vx.Observe("err", err != nil)
	vx.Assert("step-error-iff-reference-rejects", (err != nil) == rej)
	vx.Cover("rejected", rej)
	if err != nil || rej {
		return
	}
	vx.Cover("stepped", true)
	// the post-state is the canonical state of the reference's configuration
	sub2, stack2 := subOf(&ref)
	c2, err2 := canonValidator(stepPrefix(sub2, stack2))
	vx.Assert("post-config-prefix-accepted", err2 == nil)
	if err2 != nil {
		return
	}
	vx.Observe("depth", len(v.stack))
	same := v.mode == c2.mode && len(v.stack) == len(c2.stack) && v.OnlyOne
	if same {
		from := 0
		if deep {
			from = 1
			same = v.stack[0] == bottom
		}
		for i := from; i < len(v.stack); i++ {
			same = vx.And(same, v.stack[i] == c2.stack[i])
		}
	}
	if stringish(sub2.state) {
		same = same && v.nextMode == c2.nextMode
	}
	if sub2.state == rsU || sub2.state == rsLit {
		same = vx.And(same, v.ri == c2.ri)
	}
	vx.Assert("step-state-canonical", same)
	// end of input right here
	var eerr error
	pan = vx.Catch(func() { eerr = v.validateBuffer(nil, true) })
	vx.Assert("end-no-panic", !pan)
	end := ref.AtEnd()
	vx.Assert("end-error-iff-not-complete", (eerr == nil) == (end == vref.Accept || end == vref.NoDoc))
	vx.Cover("accepting-end", end == vref.Accept)
}
