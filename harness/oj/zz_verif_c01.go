package oj

import (
	"github.com/ohler55/ojg/internal/vref"
	"github.com/ohler55/ojg/internal/vx"
)

// VerifC01_Direct: every byte string of length <= N, oj.Parser.Parse vs RFC 8259.
func VerifC01_Direct() {
	n := vx.Choose("len", vx.Param("N", 3)+1)
	buf := vx.Bytes("in", n)
	in := append([]byte{}, buf...)
	var err error
	pan := vx.Catch(func() {
		p := &Parser{}
		_, err = p.Parse(in)
	})
	vx.Assert("no-panic", !pan)
	want := vref.Classify(buf)
	vx.Key("fe", "oj.Parse")
	vx.Key("ref", want.Kind)
	vx.Observe("err", err != nil)
	vx.Assert("accept-iff-valid", (err == nil) == want.OK())
	vx.Cover("accepted", err == nil)
	vx.Cover("rejected", err != nil)
}
