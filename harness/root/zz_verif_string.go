package ojg

import (
	"unicode/utf8"

	"github.com/ohler55/ojg/internal/vref"
	"github.com/ohler55/ojg/internal/vx"
)

// sanitize replaces every byte that is not part of a valid UTF-8 sequence by U+FFFD.
func sanitize(s string) string {
	out := []byte{}
	for i := 0; i < len(s); {
		r, n := utf8.DecodeRuneInString(s[i:])
		if r == utf8.RuneError && n == 1 {
			out = append(out, 0xEF, 0xBF, 0xBD)
		} else {
			out = append(out, s[i:i+n]...)
		}
		i += n
	}
	return string(out)
}

// VerifC04_String: AppendJSONString for every string of <= N bytes: the
// output is one valid JSON string, decodes (reference decoder) to the
// input with invalid UTF-8 replaced by U+FFFD, and contains no raw < > &
// when HTML-safe.
func VerifC04_String() {
	n := vx.Choose("len", vx.Param("N", 3)+1)
	html := vx.Choose("html", 2) == 1
	s := vx.String("s", n)
	vx.Key("len", n)
	vx.Key("html", html)
	var out []byte
	pan := vx.Catch(func() { out = AppendJSONString(nil, s, html) })
	vx.Assert("no-panic", !pan)
	if pan {
		return
	}
	vx.Observe("out", out)
	dec, ok := vref.DecodeString(out)
	vx.Assert("output-is-a-json-string", ok)
	if !ok {
		return
	}
	want := sanitize(s)
	vx.Assert("decodes-to-input", len(dec) == len(want) && vx.StrEq(dec, want))
	if html {
		raw := false
		for _, b := range out {
			raw = vx.Or(raw, vx.Or(b == '<', vx.Or(b == '>', b == '&')))
		}
		vx.Assert("html-safe", !raw)
	}
	// U+2028 / U+2029 never appear raw
	ls := false
	for i := 0; i+2 < len(out); i++ {
		ls = vx.Or(ls, vx.And(out[i] == 0xE2, vx.And(out[i+1] == 0x80, vx.Or(out[i+2] == 0xA8, out[i+2] == 0xA9))))
	}
	vx.Assert("line-separators-escaped", !ls)
	vx.Cover("escaped", len(out) > n+2)
	vx.Cover("plain", len(out) == n+2)
}
