package gen

import (
	"github.com/ohler55/ojg/internal/vref"
	"github.com/ohler55/ojg/internal/vx"
)

// Inductive step of the oj.Validator state machine (C01, C06 for inputs of
// ANY length and nesting depth delivered in reads of <= L bytes).
//
// The reference recogniser (vref.Machine) is a byte-at-a-time automaton
// with an explicit configuration A = (state, key/value string, hex digits
// left, literal position, container stack). For every configuration A a
// canonical prefix p(A) is built (a shortest JSON prefix that drives the
// reference into A); the canonical validator state C(A) is what the REAL
// validateBuffer leaves behind after p(A). The harness proves, for every A
// (stack depth <= D, where depth D stands for "D or deeper": its bottom
// entry is an unconstrained symbolic byte) and every chunk w of <= L
// symbolic bytes:
//
//   validateBuffer(w) from C(A) [dead fields havocked]
//     - does not panic,
//     - returns an error  iff  the reference rejects some byte of w from A,
//     - otherwise ends in a state equal to C(A') on the live fields, where
//       A' is the reference configuration after w,
//     - and validateBuffer(nil, last=true) from there errs iff A' is not an
//       accepting / no-document end.
//
// By induction over the chunks of a streamed input this gives C01's
// accept-iff-valid and C06's no-panic for ValidateReader on inputs of any
// length whose reads are <= L bytes each. Every counterexample is the
// concrete input p(A) followed by w, split at that point.

type stepSub struct {
	state   int
	isKey   bool
	hexLeft int
	lit     string
	litPos  int
	name    string
}

// reference automaton state numbers (vref keeps them unexported; the order is
// fixed by vref/json.go and checked by the prefix-reaches-config assertion)
const (
	rsValue = iota
	rsArrFirst
	rsObjFirst
	rsObjKey
	rsColon
	rsAfter
	rsStr
	rsEsc
	rsU
	rsNeg
	rsZero
	rsInt
	rsDot
	rsFrac
	rsE
	rsESign
	rsExp
	rsLit
)

var stepSubs = []stepSub{
	{state: rsValue, name: "value"}, {state: rsArrFirst, name: "arr-first"}, {state: rsObjFirst, name: "obj-first"},
	{state: rsObjKey, name: "obj-key"}, {state: rsColon, name: "colon"}, {state: rsAfter, name: "after"},
	{state: rsStr, name: "str"}, {state: rsStr, isKey: true, name: "keystr"},
	{state: rsEsc, name: "esc"}, {state: rsEsc, isKey: true, name: "keyesc"},
	{state: rsU, hexLeft: 4, name: "u4"}, {state: rsU, hexLeft: 3, name: "u3"}, {state: rsU, hexLeft: 2, name: "u2"}, {state: rsU, hexLeft: 1, name: "u1"},
	{state: rsU, hexLeft: 4, isKey: true, name: "keyu4"}, {state: rsU, hexLeft: 2, isKey: true, name: "keyu2"}, {state: rsU, hexLeft: 1, isKey: true, name: "keyu1"},
	{state: rsNeg, name: "neg"}, {state: rsZero, name: "zero"}, {state: rsInt, name: "int"}, {state: rsDot, name: "dot"},
	{state: rsFrac, name: "frac"}, {state: rsE, name: "e"}, {state: rsESign, name: "esign"}, {state: rsExp, name: "exp"},
	{state: rsLit, lit: "true", litPos: 1, name: "t"}, {state: rsLit, lit: "true", litPos: 2, name: "tr"}, {state: rsLit, lit: "true", litPos: 3, name: "tru"},
	{state: rsLit, lit: "false", litPos: 1, name: "f"}, {state: rsLit, lit: "false", litPos: 2, name: "fa"}, {state: rsLit, lit: "false", litPos: 3, name: "fal"}, {state: rsLit, lit: "false", litPos: 4, name: "fals"},
	{state: rsLit, lit: "null", litPos: 1, name: "n"}, {state: rsLit, lit: "null", litPos: 2, name: "nu"}, {state: rsLit, lit: "null", litPos: 3, name: "nul"},
}

// stepValid says whether a sub-state can occur on top of the given stack.
func stepValid(s stepSub, stack []byte) bool {
	top := byte(0)
	if len(stack) > 0 {
		top = stack[len(stack)-1]
	}
	switch {
	case s.state == rsObjFirst || s.state == rsObjKey || s.state == rsColon || s.isKey:
		return top == '{'
	case s.state == rsArrFirst:
		return top == '['
	}
	return true
}

// stepPrefix builds the canonical JSON prefix that drives the reference
// automaton into the configuration (s, stack).
func stepPrefix(s stepSub, stack []byte) []byte {
	var p []byte
	for i, k := range stack {
		if k == '[' {
			p = append(p, '[')
			continue
		}
		if i < len(stack)-1 {
			p = append(p, `{"k":`...)
			continue
		}
		switch {
		case s.state == rsObjFirst || s.isKey:
			p = append(p, '{')
		case s.state == rsObjKey:
			p = append(p, `{"k":1,`...)
		case s.state == rsColon:
			p = append(p, `{"k"`...)
		default:
			p = append(p, `{"k":`...)
		}
	}
	switch s.state {
	case rsValue:
		if len(stack) > 0 && stack[len(stack)-1] == '[' {
			p = append(p, "1,"...)
		}
	case rsAfter:
		p = append(p, "1 "...)
	case rsStr:
		p = append(p, `"a`...)
	case rsEsc:
		p = append(p, `"a\`...)
	case rsU:
		p = append(p, `"\u`...)
		for i := 0; i < 4-s.hexLeft; i++ {
			p = append(p, '0')
		}
	case rsNeg:
		p = append(p, '-')
	case rsZero:
		p = append(p, '0')
	case rsInt:
		p = append(p, '1')
	case rsDot:
		p = append(p, "1."...)
	case rsFrac:
		p = append(p, "1.5"...)
	case rsE:
		p = append(p, "1e"...)
	case rsESign:
		p = append(p, "1e+"...)
	case rsExp:
		p = append(p, "1e5"...)
	case rsLit:
		p = append(p, s.lit[:s.litPos]...)
	}
	return p
}

// subOf reads the configuration of a reference machine.
func subOf(m *vref.Machine) (stepSub, []byte) {
	s := stepSub{state: m.State}
	switch m.State {
	case rsStr, rsEsc:
		s.isKey = m.IsKey
	case rsU:
		s.isKey, s.hexLeft = m.IsKey, m.HexLeft
	case rsLit:
		s.lit, s.litPos = m.Lit, m.LitPos
	}
	return s, append([]byte{}, m.Stack[:m.Depth]...)
}

func sameSub(a, b stepSub) bool {
	return a.state == b.state && a.isKey == b.isKey && a.hexLeft == b.hexLeft && a.lit == b.lit && a.litPos == b.litPos
}

func stringish(state int) bool { return state == rsStr || state == rsEsc || state == rsU }

// stepMachine is one front-end seen as a state machine: the real per-buffer
// function plus accessors for the fields that are live between buffers.
type stepMachine struct {
	feed     func(buf []byte, last bool) error
	mode     func() string
	nextMode func() string
	setNext  func(string)
	ri       func() int
	setRi    func(int)
	kinds    func() []byte // open containers, bottom to top, as '{' / '['
	setPos   func(line, noff int)
	setRune  func(rune)
	bottom   func(byte) bool // overwrite the deepest stack entry (false: not supported)
	onlyOne  func() bool
}

const (
	stepValidator = iota
	stepTokenizer
	stepParser
)

var stepFENames = [...]string{"-", "-", "gen.Parser"}

// newStepMachine builds a fresh instance exactly as the reader entry point
// (ValidateReader / Load / ParseReader) does before its first Read.
func newStepMachine(fe int) *stepMachine {
	p := &Parser{}
	p.OnlyOne = true
	p.stack = make([]Node, 0, stackInitSize)
	p.tmp = make([]byte, 0, tmpInitSize)
	p.starts = make([]int, 0, 16)
	p.maps = make([]Object, 0, 16)
	p.noff, p.line, p.mode, p.mi = -1, 1, valueMap, 0
	return &stepMachine{
		feed:     p.parseBuffer,
		mode:     func() string { return p.mode },
		nextMode: func() string { return p.nextMode },
		setNext:  func(m string) { p.nextMode = m },
		ri:       func() int { return p.ri },
		setRi:    func(i int) { p.ri = i },
		kinds: func() []byte {
			k := make([]byte, len(p.starts))
			for i, s := range p.starts {
				if s < 0 {
					k[i] = '{'
				} else {
					k[i] = '['
				}
			}
			return k
		},
		setPos:  func(line, noff int) { p.line, p.noff = line, noff },
		setRune: func(r rune) { p.rn = r },
		bottom:  func(byte) bool { return false },
		onlyOne: func() bool { return p.OnlyOne },
	}
}

// canonMachine runs the real per-buffer function over the canonical prefix.
func canonMachine(fe int, prefix []byte) (*stepMachine, error) {
	m := newStepMachine(fe)
	err := m.feed(append([]byte{}, prefix...), false)
	return m, err
}

var stepNextModes = [...]string{"", colonMap, afterMap}

// bigPrefix replaces the digits of the canonical prefix of a number state by
// runs long enough to move the accumulators to their text form (hidden
// number state of the tokenizer and the parser).
func bigPrefix(s stepSub, stack []byte) []byte {
	base := stepPrefix(stepSub{state: rsValue}, stack)
	if len(stack) > 0 && stack[len(stack)-1] == '[' {
		base = base[:len(base)-2] // drop the "1," of the after-comma form: first element
	}
	switch s.state {
	case rsInt:
		return append(base, "12345678901234567890"...)
	case rsDot:
		return append(base, "12345678901234567890."...)
	case rsFrac:
		return append(base, "1.2345678901234567890"...)
	case rsE:
		return append(base, "12345678901234567890e"...)
	case rsESign:
		return append(base, "1.2345678901234567890e-"...)
	case rsExp:
		return append(base, "1e1234"...)
	}
	return nil
}

func stepHarness(fe int) {
	L := vx.Param("L", 2)
	D := L + 1
	si := vx.Choose("sub", len(stepSubs))
	sub := stepSubs[si]
	d := vx.Choose("depth", D+1)
	stack := make([]byte, d)
	for i := range stack {
		if vx.Choose("kind", 2) == 0 {
			stack[i] = '['
		} else {
			stack[i] = '{'
		}
	}
	if !stepValid(sub, stack) {
		return
	}
	vx.Key("fe", stepFENames[fe])
	vx.Key("sub", sub.name)
	vx.Key("stack", string(stack))
	prefix := stepPrefix(sub, stack)
	// number states of the value-building front-ends: also from a prefix whose
	// digits no longer fit the integer accumulators
	big := false
	if sub.state >= rsInt && sub.state <= rsExp && vx.Choose("big", 2) == 1 {
		prefix, big = bigPrefix(sub, stack), true
	}
	vx.Key("big", big)

	// the reference reaches exactly this configuration through the prefix
	var ref vref.Machine
	ref.Init()
	okp := true
	for _, b := range prefix {
		okp = okp && ref.Step(b)
	}
	gotSub, gotStack := subOf(&ref)
	vx.Assert("prefix-reaches-config", okp && sameSub(gotSub, sub) && string(gotStack) == string(stack))

	// the canonical concrete state: the real code run over the prefix
	m, perr := canonMachine(fe, prefix)
	vx.Assert("prefix-accepted", perr == nil)
	if perr != nil {
		return
	}
	// havoc the fields that are claimed dead in this configuration
	if !stringish(sub.state) {
		m.setNext(stepNextModes[vx.Choose("nextMode", len(stepNextModes))])
	}
	if sub.state != rsU && sub.state != rsLit {
		m.setRi(vx.Int("ri"))
	}
	if sub.state != rsU {
		m.setRune(vx.Rune("rn"))
	}
	m.setPos(vx.Int("line"), vx.Int("noff"))
	deep := false
	var bottom byte
	if d == D {
		// depth D stands for "D or deeper": nothing may depend on this entry
		bottom = vx.Byte("bottom")
		deep = m.bottom(bottom)
	}

	n := vx.Choose("len", L) + 1
	w := vx.Bytes("w", n)
	var err error
	pan := vx.Catch(func() { err = m.feed(append([]byte{}, w...), false) })
	rej := false
	for _, b := range w {
		if !ref.Step(b) {
			rej = true
			break
		}
	}
	vx.Assert("step-no-panic", !pan)
	if pan {
		return
	}
	vx.Observe("err", err != nil)
	vx.Assert("step-error-iff-reference-rejects", (err != nil) == rej)
	vx.Cover("rejected", rej)
	if err != nil || rej {
		return
	}
	vx.Cover("stepped", true)
	// the post-state is the canonical state of the reference's configuration
	sub2, stack2 := subOf(&ref)
	c2, err2 := canonMachine(fe, stepPrefix(sub2, stack2))
	vx.Assert("post-config-prefix-accepted", err2 == nil)
	if err2 != nil {
		return
	}
	k1, k2 := m.kinds(), c2.kinds()
	vx.Observe("depth", len(k1))
	same := m.mode() == c2.mode() && len(k1) == len(k2) && m.onlyOne()
	if same {
		from := 0
		if deep {
			from = 1
			same = k1[0] == bottom
		}
		for i := from; i < len(k1); i++ {
			same = vx.And(same, k1[i] == k2[i])
		}
	}
	if stringish(sub2.state) {
		same = same && m.nextMode() == c2.nextMode()
	}
	if sub2.state == rsU || sub2.state == rsLit {
		same = vx.And(same, m.ri() == c2.ri())
	}
	vx.Assert("step-state-canonical", same)
	// end of input right here
	var eerr error
	pan = vx.Catch(func() { eerr = m.feed(nil, true) })
	vx.Assert("end-no-panic", !pan)
	end := ref.AtEnd()
	vx.Assert("end-error-iff-not-complete", (eerr == nil) == (end == vref.Accept || end == vref.NoDoc))
	vx.Cover("accepting-end", end == vref.Accept)
}

// VerifStep_GenParser: one inductive step of gen.Parser.parseBuffer from every
// canonical state, against the reference automaton.
func VerifStep_GenParser() { stepHarness(stepParser) }
