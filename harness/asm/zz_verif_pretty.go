package asm

import (
	"github.com/ohler55/ojg/internal/vref"
	"github.com/ohler55/ojg/internal/vx"
	"github.com/ohler55/ojg/pretty"
	"github.com/ohler55/ojg/sen"
)

// ---- pretty.Writer: line breaking and alignment ----

const numPShapes = 12

// pLeaf: nil, a symbolic int of 1..3 characters, a symbolic bool or a
// symbolic one byte string (the printed width of a leaf is what alignment
// and line breaking depend on).
func pLeaf(tag string) any {
	switch vx.Choose(tag+"-kind", vx.Param("PKINDS", 3)) {
	case 0:
		if vx.Param("NEG", 0) == 1 {
			return int64(vx.IntIn(tag+"i", -99, 99))
		}
		return int64(vx.IntIn(tag+"i", 0, 99))
	case 1:
		return nil
	case 2:
		return vx.String(tag+"s", 1)
	}
	return vx.Bool(tag + "b")
}

func pTree(shape int) any {
	switch shape {
	case 0:
		return []any{map[string]any{"a": pLeaf("a"), "b": pLeaf("b")}, map[string]any{"a": pLeaf("c")}}
	case 1:
		return []any{[]any{pLeaf("a"), pLeaf("b")}, []any{pLeaf("c")}}
	case 2:
		return map[string]any{"x": []any{pLeaf("a"), pLeaf("b"), pLeaf("c")}, "y": map[string]any{"k": pLeaf("d")}}
	case 3:
		return []any{[]any{pLeaf("a"), []any{pLeaf("b")}}, []any{pLeaf("c"), []any{pLeaf("d")}}}
	case 4:
		return []any{map[string]any{"a": pLeaf("a")}, map[string]any{"b": pLeaf("b")}, map[string]any{}}
	case 5:
		return map[string]any{"k": []any{map[string]any{"a": pLeaf("a"), "bb": pLeaf("b")}, map[string]any{"bb": pLeaf("c"), "c": pLeaf("d")}}}
	case 6:
		return []any{pLeaf("a"), []any{}, map[string]any{}, pLeaf("b")}
	case 7:
		return []any{[]any{pLeaf("a"), pLeaf("b")}, []any{pLeaf("c"), pLeaf("d")}, []any{}}
	case 11:
		// rows of an aligned table whose second key may need quotes in SEN (raw
		// order and printed order differ)
		k := [...]string{"b ", "bc", "b:", "b\""}[vx.Choose("key", 4)]
		return []any{map[string]any{"a": pLeaf("a"), k: pLeaf("b")}, map[string]any{"a": pLeaf("c"), k: pLeaf("d")}}
	case 9, 10:
		// two leaves at the nesting depths where the indentation reaches the
		// end of the writer's constant run of spaces
		var v any = []any{pLeaf("a"), pLeaf("b")}
		if shape == 10 {
			v = map[string]any{"a": pLeaf("a"), "b": pLeaf("b")}
		}
		for n := 126 + vx.Choose("deep", 4); n > 0; n-- {
			v = []any{v}
		}
		return v
	}
	return map[string]any{"a": map[string]any{"b": map[string]any{"c": pLeaf("a")}}, "d": pLeaf("b")}
}

var pWidths = [...]int{6, 14, 40, 1, 10, 20, 80} // quick uses the first NW

// VerifPretty: pretty.Writer (JSON and SEN mode) on tree shapes built for the
// alignment and line breaking code, with symbolic leaves, over a menu of
// widths, depths 1..3 and Align on/off: the text parses back to the input.
func VerifPretty() {
	shape := vx.Choose("shape", numPShapes)
	width := pWidths[vx.Choose("width", vx.Param("NW", len(pWidths)))]
	depth := 1 + vx.Choose("depth", 3)
	align := vx.Choose("align", 2) == 1
	asSEN := vx.Choose("sen", 2) == 1
	if (shape == 9 || shape == 10) && (width != pWidths[0] || depth != 1) {
		vx.Assume(false) // the deep shapes are costly: one width and depth setting
	}
	if shape == 11 && width == pWidths[3] {
		vx.Assume(false) // the quoted-key rows were measured with the first three widths only
	}
	v := pTree(shape)
	vx.Key("shape", shape)
	vx.Key("width", width)
	vx.Key("depth", depth)
	vx.Key("align", align)
	var out []byte
	var err error
	pan := vx.Catch(func() {
		w := pretty.Writer{Width: width, MaxDepth: depth, Align: align, SEN: asSEN}
		out, err = w.Marshal(v)
	})
	vx.Assert("no-panic", !pan)
	if pan {
		return
	}
	vx.Observe("outlen", len(out))
	if asSEN {
		vx.Assert("sen-no-error", err == nil)
		if err != nil {
			return
		}
		var back any
		var perr error
		if vx.Catch(func() { back, perr = (&sen.Parser{}).Parse(append([]byte{}, out...)) }) {
			vx.Fail("sen-parse-panics")
			return
		}
		vx.Assert("sen-text-parses", perr == nil)
		if perr == nil {
			vx.Assert("sen-denotes-input", vref.TreeEqual(v, back))
		}
		vx.Cover("sen", true)
		return
	}
	vx.Assert("json-no-error", err == nil)
	if err != nil {
		return
	}
	d, ok := vref.Decode(out)
	vx.Assert("json-output-is-valid", ok)
	if ok {
		vx.Assert("json-denotes-input", matches(v, d, false, false))
	}
	vx.Cover("json", true)
}
