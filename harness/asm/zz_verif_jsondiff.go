// Harnesses that only need the public API live in package asm (the top of the import graph),
// because placing them in oj, gen, ... would create import cycles.
package asm

import (
	"io"

	"github.com/ohler55/ojg/alt"
	"github.com/ohler55/ojg/gen"
	"github.com/ohler55/ojg/internal/vref"
	"github.com/ohler55/ojg/internal/vx"
	"github.com/ohler55/ojg/oj"
	"github.com/ohler55/ojg/sen"
)

// chunkReader delivers data in the given chunk sizes, then the rest, then EOF.
type chunkReader struct {
	data   []byte
	chunks []int
	pos    int
	ci     int
}

func (r *chunkReader) Read(p []byte) (int, error) {
	if r.pos >= len(r.data) {
		return 0, io.EOF
	}
	n := len(r.data) - r.pos
	if r.ci < len(r.chunks) {
		if r.chunks[r.ci] < n {
			n = r.chunks[r.ci]
		}
		r.ci++
	}
	if len(p) < n {
		n = len(p)
	}
	copy(p, r.data[r.pos:r.pos+n])
	r.pos += n
	return n, nil
}

// chunking returns the Read sizes for choice k of n+1: k < n splits once
// after k bytes (k = 0: everything at once); k = n reads byte by byte.
func chunking(n, k int) []int {
	if k == 0 {
		return nil
	}
	if k < n {
		// one split, followed by a zero-length Read (n = 0, err = nil: "nothing
		// happened" under the io.Reader contract), then the rest
		return []int{k, 0}
	}
	c := make([]int, n)
	for i := range c {
		c[i] = 1
	}
	return c
}

// composition returns the chunk sizes encoded by a bit mask over the n-1
// possible split points.
func composition(n, mask int) []int {
	var c []int
	run := 1
	for i := 0; i < n-1; i++ {
		if mask&(1<<i) != 0 {
			c = append(c, run)
			run = 1
		} else {
			run++
		}
	}
	return append(c, run)
}

// builder rebuilds a tree from tokenizer callbacks with alt.Builder.
type builder struct {
	b    alt.Builder
	key  string
	have bool
	docs []any
	// container stack: true = object
	stack []bool
}

func (h *builder) keyArgs() []string {
	if h.have {
		h.have = false
		return []string{h.key}
	}
	return nil
}
func (h *builder) val(v any) {
	_ = h.b.Value(v, h.keyArgs()...)
	h.done()
}
func (h *builder) done() {
	if len(h.stack) == 0 {
		h.docs = append(h.docs, h.b.Result())
		h.b.Reset()
	}
}
func (h *builder) Null()           { h.val(nil) }
func (h *builder) Bool(v bool)     { h.val(v) }
func (h *builder) Int(v int64)     { h.val(v) }
func (h *builder) Float(v float64) { h.val(v) }
func (h *builder) Number(v string) { h.val(jsonNumber(v)) }
func (h *builder) String(v string) { h.val(v) }
func (h *builder) Key(k string)    { h.key, h.have = k, true }
func (h *builder) ObjectStart()    { _ = h.b.Object(h.keyArgs()...); h.stack = append(h.stack, true) }
func (h *builder) ArrayStart()     { _ = h.b.Array(h.keyArgs()...); h.stack = append(h.stack, false) }
func (h *builder) ObjectEnd()      { h.pop() }
func (h *builder) ArrayEnd()       { h.pop() }
func (h *builder) pop() {
	h.b.Pop()
	if len(h.stack) > 0 {
		h.stack = h.stack[:len(h.stack)-1]
	}
	h.done()
}

type outcome struct {
	name string
	val  any
	err  error
	pan  bool
}

// frontEnds runs every parsing front-end on buf (the reader variants with
// the given chunking) in single-document mode.
func frontEnds(buf []byte, chunks []int, withSEN bool) []outcome {
	cp := func() []byte { return append([]byte{}, buf...) }
	var out []outcome
	run := func(name string, f func() (any, error)) {
		o := outcome{name: name}
		o.pan = vx.Catch(func() { o.val, o.err = f() })
		out = append(out, o)
	}
	run("oj.Parse", func() (any, error) { return (&oj.Parser{}).Parse(cp()) })
	run("oj.ParseReader", func() (any, error) {
		return (&oj.Parser{}).ParseReader(&chunkReader{data: cp(), chunks: chunks})
	})
	run("oj.Tokenize+Builder", func() (any, error) {
		t := &oj.Tokenizer{}
		t.OnlyOne = true
		h := &builder{}
		err := t.Parse(cp(), h)
		return h.result(), err
	})
	run("oj.TokenizeLoad+Builder", func() (any, error) {
		t := &oj.Tokenizer{}
		t.OnlyOne = true
		h := &builder{}
		err := t.Load(&chunkReader{data: cp(), chunks: chunks}, h)
		return h.result(), err
	})
	run("gen.Parse+Simplify", func() (any, error) {
		n, err := (&gen.Parser{}).Parse(cp())
		return simplify(n), err
	})
	run("gen.ParseReader+Simplify", func() (any, error) {
		n, err := (&gen.Parser{}).ParseReader(&chunkReader{data: cp(), chunks: chunks})
		return simplify(n), err
	})
	run("oj.Validate", func() (any, error) {
		return nil, (&oj.Validator{OnlyOne: true}).Validate(cp())
	})
	run("oj.ValidateReader", func() (any, error) {
		return nil, (&oj.Validator{OnlyOne: true}).ValidateReader(&chunkReader{data: cp(), chunks: chunks})
	})
	if withSEN {
		run("sen.Parse", func() (any, error) { return (&sen.Parser{}).Parse(cp()) })
	}
	return out
}

// senFamily runs the SEN front-ends: sen.Parse on the buffer (the base),
// sen.ParseReader behind the chunking reader and sen.Tokenizer + Builder.
func senFamily(buf []byte, chunks []int) []outcome {
	cp := func() []byte { return append([]byte{}, buf...) }
	var out []outcome
	run := func(name string, f func() (any, error)) {
		o := outcome{name: name}
		o.pan = vx.Catch(func() { o.val, o.err = f() })
		out = append(out, o)
	}
	run("sen.Parse", func() (any, error) { return (&sen.Parser{}).Parse(cp()) })
	run("sen.ParseReader", func() (any, error) {
		return (&sen.Parser{}).ParseReader(&chunkReader{data: cp(), chunks: chunks})
	})
	run("sen.Tokenize+Builder", func() (any, error) {
		h := &builder{}
		err := (&sen.Tokenizer{OnlyOne: true}).Parse(cp(), h)
		return h.result(), err
	})
	run("sen.TokenizeLoad+Builder", func() (any, error) {
		h := &builder{}
		err := (&sen.Tokenizer{OnlyOne: true}).Load(&chunkReader{data: cp(), chunks: chunks}, h)
		return h.result(), err
	})
	return out
}

// senFeature names the parser-only SEN feature an input uses (function call
// syntax, '+' string concatenation); it only labels a disagreement that was
// already found.
func senFeature(buf []byte) string {
	for _, b := range buf {
		if b == '(' || b == ')' {
			return "function"
		}
	}
	for _, b := range buf {
		if b == '+' {
			return "plus"
		}
	}
	for i := 1; i < len(buf); i++ {
		if buf[i-1] == '/' && buf[i] == '*' {
			return "ccomment"
		}
	}
	return "none"
}

var c03Templates = [...]string{
	`{"a":"?"}`, `["?","?"]`, `[tru?,nul?]`, `[1?.?e?]`, `["?\?"]`, `{"?":?}`, `[?,?]`, `[[?],{"a":?}]`,
	`["\u00??"]`, `-?.?`, `[1,2?3]`, `{"a":"b","?":"d"}`, `[true,null]`, `["ab","c?"]`, `[fals?]`,
	// a free byte at a structural position (after a member, after a comma, between values)
	`{"a":"b",?}`, `{"a":true?}`, `[{"a":[1]?}]`, `{"":{}?}`, `[[],?]`, `{"a":1 ?}`, `{"a":"b"?"c":1}`, `["a"?"b"]`, `{"a"?"b"}`,
	// numbers long enough to leave the uint64 accumulators for the text form (hidden number state), then free bytes
	`12345678901234567890??`, `[12345678901234567890?]`, `2000000000000000000??`, `1.2345678901234567890??`, `{"a":-12345678901234567890?}`,
	`[1.5e12345678901234567890?]`,
}

// VerifC03_Templates: JSON skeletons with free symbolic bytes ('?') at the
// interesting places, delivered whole, byte by byte, and split at one
// symbolic position: all JSON front-ends against oj.Parse, and the SEN
// family (Parse, ParseReader, Tokenizer, Tokenizer.Load) among themselves.
func VerifC03_Templates() {
	tmpl := c03Templates[vx.Choose("template", len(c03Templates))]
	mode := vx.Choose("chunking", 3)
	buf := make([]byte, len(tmpl))
	for i := 0; i < len(tmpl); i++ {
		if tmpl[i] == '?' {
			buf[i] = vx.Byte("in")
		} else {
			buf[i] = tmpl[i]
		}
	}
	var chunks []int
	switch mode {
	case 1:
		chunks = chunking(len(buf), len(buf)) // byte by byte
	case 2:
		// one split, then a zero-length Read (legal for an io.Reader), then the rest
		chunks = []int{vx.Concrete(vx.IntIn("split", 1, len(buf)-1)), 0}
	}
	want := vref.Classify(buf)
	valid := want.Kind == vref.Accept
	vx.Key("template", tmpl)
	vx.Key("chunking", mode)
	vx.Key("ref", want.KindName())
	vx.Key("bom", want.BOM)
	outs := frontEnds(buf, chunks, valid)
	compare(outs, valid)
	// C01 on inputs longer than the exhaustive harness reaches: every strict
	// front-end accepts the text iff the reference recogniser does
	for _, o := range outs {
		if !o.pan && o.name != "sen.Parse" {
			vx.Assert("accept-iff-valid:"+o.name, (o.err == nil) == valid)
		}
	}
	// C09 on longer and chunked inputs: a rejected text is reported at the
	// reference's first offending byte by every front-end and every chunking
	// (incomplete texts: see the known findings about end-of-input positions)
	if want.Kind == vref.Reject && !want.BOM {
		line, col := vref.LineCol(buf, want.At)
		for _, o := range outs {
			if o.pan || o.err == nil || o.name == "sen.Parse" {
				continue
			}
			var el, ec int
			switch pe := o.err.(type) {
			case *oj.ParseError:
				el, ec = pe.Line, pe.Column
			case *gen.ParseError:
				el, ec = pe.Line, pe.Column
			default:
				continue
			}
			vx.Assert("pos:"+o.name, vx.And(el == line, ec == col))
		}
	}
	sf := senFamily(buf, chunks)
	base := sf[0]
	vx.Assert("no-panic:"+base.name, !base.pan)
	for _, o := range sf[1:] {
		vx.Assert("no-panic:"+o.name, !o.pan)
		if o.pan || base.pan {
			continue
		}
		if (o.err == nil) != (base.err == nil) {
			vx.Key("feat", senFeature(buf))
		}
		vx.Assert("agree-err:"+o.name, (o.err == nil) == (base.err == nil))
		if o.err == nil && base.err == nil {
			same := vref.TreeEqual(base.val, o.val)
			if !same {
				vx.Key("feat", senFeature(buf))
			}
			vx.Assert("agree-val:"+o.name, same)
		}
	}
	vx.Cover("valid", valid)
	vx.Cover("invalid", !want.OK())
}

func (h *builder) result() any {
	if len(h.docs) > 0 {
		return h.docs[len(h.docs)-1]
	}
	return nil
}

// simplify is gen.Node.Simplify except that a gen.Big (which simplifies to a
// plain string of its digits) becomes the json.Number the other front-ends
// deliver for the same text.
func simplify(n gen.Node) any {
	switch t := n.(type) {
	case nil:
		return nil
	case gen.Big:
		return jsonNumber(string(t))
	case gen.Array:
		a := make([]any, len(t))
		for i, m := range t {
			a[i] = simplify(m)
		}
		return a
	case gen.Object:
		o := make(map[string]any, len(t))
		for k, m := range t {
			o[k] = simplify(m)
		}
		return o
	}
	return n.Simplify()
}

// hasFloat reports whether the tree holds a float64 (gen computes floats
// arithmetically while the other front-ends use strconv.ParseFloat; the
// comparison of such values is outside the claim, see DESIGN.md C03).
func hasFloat(v any) bool {
	switch t := v.(type) {
	case float64:
		return true
	case []any:
		for _, e := range t {
			if hasFloat(e) {
				return true
			}
		}
	case map[string]any:
		for _, e := range t {
			if hasFloat(e) {
				return true
			}
		}
	}
	return false
}

func compare(outs []outcome, valid bool) {
	base := outs[0]
	vx.Assert("no-panic:"+base.name, !base.pan)
	for _, o := range outs[1:] {
		vx.Assert("no-panic:"+o.name, !o.pan)
		if o.pan || base.pan {
			continue
		}
		vx.Observe("err:"+o.name, o.err != nil)
		vx.Assert("agree-err:"+o.name, (o.err == nil) == (base.err == nil))
		if o.err != nil || base.err != nil {
			continue
		}
		if o.name == "oj.Validate" || o.name == "oj.ValidateReader" {
			continue
		}
		if (o.name == "gen.Parse+Simplify" || o.name == "gen.ParseReader+Simplify") && hasFloat(base.val) {
			continue
		}
		vx.Assert("agree-val:"+o.name, vref.TreeEqual(base.val, o.val))
	}
}

// VerifC03_Chunked: every byte string of length <= N, every single split
// point and byte-by-byte delivery (thorough: every composition), all
// front-ends against oj.Parse on the whole buffer.
func VerifC03_Chunked() {
	n := vx.Choose("len", vx.Param("N", 3)+1)
	var chunks []int
	if vx.Param("ALLCOMP", 0) == 1 && n > 1 {
		chunks = composition(n, vx.Choose("mask", 1<<(n-1)))
	} else {
		chunks = chunking(n, vx.Choose("chunking", n+1))
	}
	buf := vx.Bytes("in", n)
	want := vref.Classify(buf)
	valid := want.Kind == vref.Accept
	vx.Key("ref", want.KindName())
	vx.Key("trace", want.Trace)
	vx.Key("bom", want.BOM)
	outs := frontEnds(buf, chunks, valid)
	compare(outs, valid)
	vx.Cover("valid", valid)
	vx.Cover("invalid", !want.OK())
}

func jsonNumber(s string) any { return jsonNum(s) }

// ---- multi-document mode ----

type multiOutcome struct {
	name string
	docs []any
	err  error
	pan  bool
}

// multiFrontEnds runs the front-ends in multi-document mode (callback,
// channel, tokenizer without OnlyOne) and collects the delivered documents.
func multiFrontEnds(buf []byte, chunks []int, withSEN bool) []multiOutcome {
	cp := func() []byte { return append([]byte{}, buf...) }
	var out []multiOutcome
	run := func(name string, f func(add func(any)) error) {
		o := multiOutcome{name: name}
		o.pan = vx.Catch(func() { o.err = f(func(v any) { o.docs = append(o.docs, v) }) })
		out = append(out, o)
	}
	run("oj.Parse(cb)", func(add func(any)) error {
		_, err := (&oj.Parser{}).Parse(cp(), func(v any) bool { add(v); return false })
		return err
	})
	run("oj.Parse(func)", func(add func(any)) error {
		_, err := (&oj.Parser{}).Parse(cp(), func(v any) { add(v) })
		return err
	})
	run("oj.ParseReader(cb)", func(add func(any)) error {
		_, err := (&oj.Parser{}).ParseReader(&chunkReader{data: cp(), chunks: chunks}, func(v any) bool { add(v); return false })
		return err
	})
	run("oj.Parse(chan)", func(add func(any)) error {
		ch := make(chan any, 16)
		_, err := (&oj.Parser{}).Parse(cp(), ch)
		for len(ch) > 0 {
			add(<-ch)
		}
		return err
	})
	run("oj.ParseReader(chan)", func(add func(any)) error {
		ch := make(chan any, 16)
		_, err := (&oj.Parser{}).ParseReader(&chunkReader{data: cp(), chunks: chunks}, ch)
		for len(ch) > 0 {
			add(<-ch)
		}
		return err
	})
	run("oj.Tokenize+Builder", func(add func(any)) error {
		h := &builder{}
		err := (&oj.Tokenizer{}).Parse(cp(), h)
		for _, d := range h.docs {
			add(d)
		}
		return err
	})
	run("oj.TokenizeLoad+Builder", func(add func(any)) error {
		h := &builder{}
		err := (&oj.Tokenizer{}).Load(&chunkReader{data: cp(), chunks: chunks}, h)
		for _, d := range h.docs {
			add(d)
		}
		return err
	})
	run("gen.Parse(cb)+Simplify", func(add func(any)) error {
		_, err := (&gen.Parser{}).Parse(cp(), func(n gen.Node) bool { add(simplify(n)); return false })
		return err
	})
	run("gen.ParseReader(cb)+Simplify", func(add func(any)) error {
		_, err := (&gen.Parser{}).ParseReader(&chunkReader{data: cp(), chunks: chunks}, func(n gen.Node) bool { add(simplify(n)); return false })
		return err
	})
	run("gen.Parse(chan)+Simplify", func(add func(any)) error {
		ch := make(chan gen.Node, 16)
		_, err := (&gen.Parser{}).Parse(cp(), ch)
		for len(ch) > 0 {
			add(simplify(<-ch))
		}
		return err
	})
	run("oj.Validate", func(add func(any)) error { return (&oj.Validator{}).Validate(cp()) })
	run("oj.ValidateReader", func(add func(any)) error {
		return (&oj.Validator{}).ValidateReader(&chunkReader{data: cp(), chunks: chunks})
	})
	if withSEN {
		run("sen.Parse(cb)", func(add func(any)) error {
			_, err := (&sen.Parser{}).Parse(cp(), func(v any) bool { add(v); return false })
			return err
		})
	}
	return out
}

// senMultiFamily: the SEN front-ends in multi-document mode.
func senMultiFamily(buf []byte, chunks []int) []multiOutcome {
	cp := func() []byte { return append([]byte{}, buf...) }
	var out []multiOutcome
	run := func(name string, f func(add func(any)) error) {
		o := multiOutcome{name: name}
		o.pan = vx.Catch(func() { o.err = f(func(v any) { o.docs = append(o.docs, v) }) })
		out = append(out, o)
	}
	run("sen.Parse(cb)", func(add func(any)) error {
		_, err := (&sen.Parser{}).Parse(cp(), func(v any) bool { add(v); return false })
		return err
	})
	run("sen.ParseReader(cb)", func(add func(any)) error {
		_, err := (&sen.Parser{}).ParseReader(&chunkReader{data: cp(), chunks: chunks}, func(v any) bool { add(v); return false })
		return err
	})
	run("sen.ParseReader(chan)", func(add func(any)) error {
		ch := make(chan any, 16)
		_, err := (&sen.Parser{}).ParseReader(&chunkReader{data: cp(), chunks: chunks}, ch)
		for len(ch) > 0 {
			add(<-ch)
		}
		return err
	})
	run("sen.Tokenize+Builder", func(add func(any)) error {
		h := &builder{}
		err := (&sen.Tokenizer{}).Parse(cp(), h)
		for _, d := range h.docs {
			add(d)
		}
		return err
	})
	run("sen.TokenizeLoad+Builder", func(add func(any)) error {
		h := &builder{}
		err := (&sen.Tokenizer{}).Load(&chunkReader{data: cp(), chunks: chunks}, h)
		for _, d := range h.docs {
			add(d)
		}
		return err
	})
	return out
}

func sameDocs(a, b []any) bool {
	if len(a) != len(b) {
		return false
	}
	for i := range a {
		if !vref.TreeEqual(a[i], b[i]) {
			return false
		}
	}
	return true
}

func docsHaveFloat(ds []any) bool {
	for _, d := range ds {
		if hasFloat(d) {
			return true
		}
	}
	return false
}

// compareMulti: every front-end agrees with the first on error-ness and, when
// neither reports an error, on the sequence of documents delivered.
func compareMulti(os []multiOutcome, validators bool) {
	base := os[0]
	vx.Assert("no-panic:"+base.name, !base.pan)
	for _, o := range os[1:] {
		vx.Assert("no-panic:"+o.name, !o.pan)
		if o.pan || base.pan {
			continue
		}
		if (o.err == nil) != (base.err == nil) {
			vx.Key("feat", senFeature2(os))
			vx.Key("bom", bomLabel(multiBuf))
		}
		vx.Assert("agree-err:"+o.name, (o.err == nil) == (base.err == nil))
		if o.err != nil || base.err != nil {
			continue
		}
		if len(o.name) >= 11 && o.name[:11] == "oj.Validate" {
			continue // delivers no documents
		}
		if docsHaveFloat(base.docs) || docsHaveFloat(o.docs) {
			continue // float values: C02
		}
		same := sameDocs(base.docs, o.docs)
		if !same {
			vx.Key("feat", senFeature2(os))
			vx.Key("bom", bomLabel(multiBuf))
		}
		vx.Assert("agree-docs:"+o.name, same)
	}
}

var multiBuf []byte

// bomLabel labels a finding (forks: only used on paths that already disagree).
func bomLabel(b []byte) string {
	if len(b) < 3 {
		return "false"
	}
	if b[0] != 0xEF {
		return "false"
	}
	if b[1] != 0xBB {
		return "false"
	}
	if b[2] != 0xBF {
		return "false"
	}
	return "true"
}

func senFeature2(os []multiOutcome) string { return senFeature(multiBuf) }

var c03MultiTemplates = [...]string{
	`? ?`, `1?2`, `[?]?`, `"?""?"`, `{}?[]`, `tru? fals?`, `[1]?[2]?`, `1 2?`, `"a"?1`, `nul?null`, `1.5?2`, `{"a":1}?{"b":?}`,
}

// VerifC03_Multi: multi-document mode. Every byte string of <= N bytes and a
// set of two/three-document skeletons with free bytes, delivered whole / byte
// by byte / split once: callback, channel and tokenizer variants deliver the
// same sequence of documents (or all report an error). JSON and SEN
// front-ends are compared within their family only: concatenated documents
// such as nullnull are two JSON documents but one SEN token.
func VerifC03_Multi() {
	var buf []byte
	nt := len(c03MultiTemplates)
	k := vx.Choose("template", nt+1)
	if k == nt {
		n := vx.Choose("len", vx.Param("N", 3)+1)
		buf = make([]byte, n)
		for i := range buf {
			buf[i] = vx.Byte("in")
		}
		vx.Key("template", "free")
	} else {
		tmpl := c03MultiTemplates[k]
		buf = make([]byte, len(tmpl))
		for i := 0; i < len(tmpl); i++ {
			if tmpl[i] == '?' {
				buf[i] = vx.Byte("in")
			} else {
				buf[i] = tmpl[i]
			}
		}
		vx.Key("template", tmpl)
	}
	mode := vx.Choose("chunking", 3)
	var chunks []int
	switch mode {
	case 1:
		chunks = chunking(len(buf), len(buf))
	case 2:
		if len(buf) < 2 {
			vx.Assume(false)
		}
		chunks = []int{vx.Concrete(vx.IntIn("split", 1, len(buf)-1)), 0} // split, zero-length Read, rest
	}
	vx.Key("chunking", mode)
	multiBuf = buf
	jos := multiFrontEnds(buf, chunks, false)
	compareMulti(jos, true)
	sos := senMultiFamily(buf, chunks)
	compareMulti(sos, false)
	vx.Cover("valid", !jos[0].pan && jos[0].err == nil && len(jos[0].docs) >= 2)
	vx.Cover("invalid", !jos[0].pan && jos[0].err != nil)
}
