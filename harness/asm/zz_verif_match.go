package asm

import (
	"strconv"

	"github.com/ohler55/ojg/internal/vref"
	"github.com/ohler55/ojg/internal/vx"
	"github.com/ohler55/ojg/jp"
	"github.com/ohler55/ojg/oj"
	"github.com/ohler55/ojg/sen"
)

// ---- documents: concrete skeletons with symbolic digit leaves ----

const numMDocs = 5

// digit returns a symbolic decimal digit byte.
func digit(tag string) byte {
	b := vx.Byte(tag)
	vx.Assume(vx.And('1' <= b, b <= '9')) // one parser class: no fork per leaf
	return b
}

// mDoc returns the text of document k (every 'L' is a symbolic digit).
func mDoc(k int) []byte {
	var skel string
	switch k {
	case 0:
		skel = `{"a":[{"x":L},L,[L],L],"b":{"x":L},"x":L}`
	case 1:
		skel = `[[L,L],[L,L],[L,L]]`
	case 2:
		skel = `{"a":{"b":{"x":L},"x":L},"x":L}`
	case 3:
		skel = `[L,{"k":[L,{"k":L}],"j":L},[[L]],L]`
	default:
		skel = `{"a":[{"x":L},{"x":L},L],"x":L}`
	}
	out := make([]byte, len(skel))
	for i := 0; i < len(skel); i++ {
		if skel[i] == 'L' {
			out[i] = digit("leaf")
		} else {
			out[i] = skel[i]
		}
	}
	return out
}

// docOrder lists every location of v in document order (pre-order).
func docOrder(v any, path []any, keyOrder func(m map[string]any) []string, out *[][]any) {
	*out = append(*out, path)
	switch tv := v.(type) {
	case []any:
		for i, e := range tv {
			docOrder(e, append(append([]any{}, path...), i), keyOrder, out)
		}
	case map[string]any:
		for _, k := range keyOrder(tv) {
			docOrder(tv[k], append(append([]any{}, path...), k), keyOrder, out)
		}
	}
}

// keysOf returns the member order of the documents above (they are written
// with their keys in this order).
func keysOf(m map[string]any) []string {
	var ks []string
	for _, k := range []string{"a", "k", "j", "b", "x"} {
		if _, has := m[k]; has {
			ks = append(ks, k)
		}
	}
	return ks
}

func pathString(p []any) string {
	s := "$"
	for _, k := range p {
		switch tk := k.(type) {
		case string:
			s += "." + tk
		case int:
			s += "[" + strconv.Itoa(tk) + "]"
		}
	}
	return s
}

// ---- targets ----

const numMTargets = 15

func mTarget(k int) (jp.Expr, []vref.PFrag, string) {
	ix := func() int { return vx.IntIn("i", 0, 4) }
	switch k {
	case 0:
		i := ix()
		return jp.R().C("a").N(i), []vref.PFrag{{Kind: vref.FChild, Key: "a"}, {Kind: vref.FNth, N: i}}, "$.a[i]"
	case 1:
		return jp.R().C("a").W(), []vref.PFrag{{Kind: vref.FChild, Key: "a"}, {Kind: vref.FWild}}, "$.a[*]"
	case 2:
		i := ix()
		return jp.R().W().N(i), []vref.PFrag{{Kind: vref.FWild}, {Kind: vref.FNth, N: i}}, "$[*][i]"
	case 3:
		return jp.R().D().C("x"), []vref.PFrag{{Kind: vref.FDescent}, {Kind: vref.FChild, Key: "x"}}, "$..x"
	case 4:
		i := ix()
		return jp.R().C("a").N(i).C("x"), []vref.PFrag{{Kind: vref.FChild, Key: "a"}, {Kind: vref.FNth, N: i}, {Kind: vref.FChild, Key: "x"}}, "$.a[i].x"
	case 5:
		i, j := ix(), ix()
		return jp.R().U(i, j), []vref.PFrag{{Kind: vref.FUnion, Union: []any{i, j}}}, "$[i,j]"
	case 6:
		return jp.R().C("a").C("b").C("x"), []vref.PFrag{{Kind: vref.FChild, Key: "a"}, {Kind: vref.FChild, Key: "b"}, {Kind: vref.FChild, Key: "x"}}, "$.a.b.x"
	case 7:
		i := ix()
		return jp.R().N(i).C("k").W(), []vref.PFrag{{Kind: vref.FNth, N: i}, {Kind: vref.FChild, Key: "k"}, {Kind: vref.FWild}}, "$[i].k[*]"
	case 9:
		st, en := vx.IntIn("s", 0, 4), vx.IntIn("e", 0, 4)
		return jp.R().C("a").S(st, en), []vref.PFrag{{Kind: vref.FChild, Key: "a"}, {Kind: vref.FSlice, Slice: []int{st, en}}}, "$.a[s:e]"
	case 10:
		i := vx.IntIn("neg", -4, -1)
		return jp.R().C("a").N(i), []vref.PFrag{{Kind: vref.FChild, Key: "a"}, {Kind: vref.FNth, N: i}}, "$.a[-i]"
	case 12:
		i, j := ix(), ix()
		return jp.R().U("a", "b").U(i, j), []vref.PFrag{{Kind: vref.FUnion, Union: []any{"a", "b"}}, {Kind: vref.FUnion, Union: []any{i, j}}}, "$['a','b'][i,j]"
	case 13:
		i, j := ix(), ix()
		return jp.R().U(i, j).U("k", "x"), []vref.PFrag{{Kind: vref.FUnion, Union: []any{i, j}}, {Kind: vref.FUnion, Union: []any{"k", "x"}}}, "$[i,j]['k','x']"
	case 14:
		// a filter below a wildcard: the part before the filter also matches scalars
		c := int64(vx.IntIn("fc", 0, 9))
		pred := func(v any) bool {
			m, ok := v.(map[string]any)
			if !ok {
				return false
			}
			x, ok := m["x"].(int64)
			return ok && x > c
		}
		return jp.R().W().F(jp.Gt(jp.Get(jp.A().C("x")), jp.ConstInt(c))), []vref.PFrag{{Kind: vref.FWild}, {Kind: vref.FFilter, Filter: pred}}, "$[*][?(@.x>c)]"
	case 11:
		c := int64(vx.IntIn("fc", 0, 9))
		pred := func(v any) bool {
			m, ok := v.(map[string]any)
			if !ok {
				return false
			}
			x, ok := m["x"].(int64)
			return ok && x > c
		}
		return jp.R().C("a").F(jp.Gt(jp.Get(jp.A().C("x")), jp.ConstInt(c))), []vref.PFrag{{Kind: vref.FChild, Key: "a"}, {Kind: vref.FFilter, Filter: pred}}, "$.a[?(@.x>c)]"
	}
	i := ix()
	return jp.R().N(i), []vref.PFrag{{Kind: vref.FNth, N: i}}, "$[i]"
}

type mHit struct {
	path string
	val  any
}

// topLevel: "$.x" or "$[3]" (a member of the document root).
func topLevel(path string) bool {
	n := 0
	for i := 1; i < len(path); i++ {
		if path[i] == '.' || path[i] == '[' {
			n++
		}
	}
	return n == 1
}

// expectedHits: the outermost locations the targets select, in document order.
func expectedHits(tree any, frags [][]vref.PFrag) []mHit {
	var sel [][]any
	for _, rf := range frags {
		for _, n := range vref.Select(rf, tree).Nodes {
			dup := false
			for _, p := range sel {
				if vref.SamePath(p, n.Path) {
					dup = true
				}
			}
			if !dup {
				sel = append(sel, n.Path)
			}
		}
	}
	// outermost only
	var outer [][]any
	for _, p := range sel {
		inner := false
		for _, q := range sel {
			if vref.IsPrefix(q, p) {
				inner = true
			}
		}
		if !inner {
			outer = append(outer, p)
		}
	}
	var order [][]any
	docOrder(tree, nil, keysOf, &order)
	var hits []mHit
	for _, p := range order {
		for _, q := range outer {
			if vref.SamePath(p, q) {
				v, _ := vref.At(tree, p)
				hits = append(hits, mHit{pathString(p), v})
			}
		}
	}
	return hits
}

// VerifC17_Match: oj.Match and oj.MatchLoad (chunked) against
// parse-then-select for concrete document skeletons with symbolic leaves and
// one or two targets with symbolic indexes.
func VerifC17_Match() {
	dk := vx.Choose("doc", numMDocs)
	nt := 1 + vx.Choose("ntargets", vx.Param("NT", 1))
	var targets []jp.Expr
	var frags [][]vref.PFrag
	var filters []int
	desc := ""
	for i := 0; i < nt; i++ {
		tk := vx.Choose("target", numMTargets)
		t, rf, d := mTarget(tk)
		targets = append(targets, t)
		frags = append(frags, rf)
		desc += d + " "
		if tk == 11 || tk == 14 {
			filters = append(filters, i)
		}
	}
	// 0: oj.Match on []byte, 1: oj.MatchLoad 1-byte reads, 2: sen.Match, 3: sen.MatchLoad 1-byte reads, 4: oj.MatchLoad split in two
	nload := 4 + vx.Param("SPLIT", 0)
	if nt == 2 {
		nload = vx.Param("NT2LOADS", nload) // quick: two targets through oj.Match only
	}
	load := vx.Choose("load", nload)
	doc := mDoc(dk)
	vx.Key("doc", dk)
	vx.Key("targets", desc)
	vx.Key("load", load)
	tree, perr := (&oj.Parser{}).Parse(append([]byte{}, doc...))
	if perr != nil {
		vx.Assume(false)
	}
	want := expectedHits(tree, frags)
	fhits := 0 // locations selected by filter targets (labels findings only)
	for _, i := range filters {
		fhits += len(vref.Select(frags[i], tree).Nodes)
	}
	vx.Key("fhits", fhits)
	var got []mHit
	var err error
	cb := func(path jp.Expr, data any) { got = append(got, mHit{path.String(), data}) }
	pan := vx.Catch(func() {
		switch load {
		case 0:
			err = oj.Match(append([]byte{}, doc...), cb, targets...)
		case 1:
			err = oj.MatchLoad(&chunkReader{data: append([]byte{}, doc...), chunks: chunking(len(doc), len(doc))}, cb, targets...)
		case 2:
			err = sen.Match(append([]byte{}, doc...), cb, targets...)
		case 3:
			err = sen.MatchLoad(&chunkReader{data: append([]byte{}, doc...), chunks: chunking(len(doc), len(doc))}, cb, targets...)
		default:
			err = oj.MatchLoad(&chunkReader{data: append([]byte{}, doc...), chunks: []int{vx.IntIn("split", 1, 30)}}, cb, targets...)
		}
	})
	vx.Assert("no-panic", !pan)
	if pan {
		return
	}
	vx.Assert("no-error", err == nil)
	vx.Observe("ncalls", len(got))
	ok := len(got) == len(want)
	if ok {
		for i := range got {
			ok = ok && got[i].path == want[i].path && vref.TreeEqual(got[i].val, want[i].val)
		}
	}
	if !ok {
		// label: was a scalar member of the document root, selected by some
		// target, not reported? (it cannot lie inside a container that a
		// filter target collects)
		lost := false
		for _, w := range want {
			switch w.val.(type) {
			case []any, map[string]any:
				continue
			}
			if !topLevel(w.path) {
				continue
			}
			seen := false
			for _, g := range got {
				seen = seen || g.path == w.path
			}
			lost = lost || !seen
		}
		vx.Key("lost-root-scalar", lost)
	}
	vx.Assert("callbacks-equal-parse-then-select", ok)
	vx.Cover("some", len(want) > 0)
	vx.Cover("none", len(want) == 0)
}
