package asm

import (
	"errors"
	"github.com/ohler55/ojg"
	"github.com/ohler55/ojg/gen"
	"github.com/ohler55/ojg/internal/vref"
	"github.com/ohler55/ojg/internal/vx"
	"github.com/ohler55/ojg/oj"
	"github.com/ohler55/ojg/pretty"
	"github.com/ohler55/ojg/sen"
)

// ---- a uniform view of the reusable parsing instances ----

type callResult struct {
	val  any
	err  error
	pan  bool
	line int
	col  int
	pos  bool
}

func (r *callResult) setErr(err error) {
	r.err = err
	if pe, ok := err.(*oj.ParseError); ok {
		r.pos, r.line, r.col = true, pe.Line, pe.Column
	} else if pe, ok := err.(*gen.ParseError); ok {
		r.pos, r.line, r.col = true, pe.Line, pe.Column
	}
}

// instance is one reusable object; how selects entry point and arguments.
type instance interface {
	call(buf []byte, how int) callResult
}

const (
	howParse   = iota
	howReader1 // ParseReader, 1-byte reads
	howConvFloat
	howCallback
	howUnmarshal
	numHows
)

var howNames = [...]string{"Parse", "ParseReader(1-byte)", "Parse(NumConvFloat64)", "Parse(callback)", "Unmarshal"}

type ojParserInst struct{ p oj.Parser }

func (x *ojParserInst) call(buf []byte, how int) (r callResult) {
	in := append([]byte{}, buf...)
	r.pan = vx.Catch(func() {
		var v any
		var err error
		switch how {
		case howReader1:
			v, err = x.p.ParseReader(&chunkReader{data: in, chunks: chunking(len(in), len(in))})
		case howConvFloat:
			v, err = x.p.Parse(in, ojg.NumConvFloat64)
		case howCallback:
			_, err = x.p.Parse(in, func(d any) { v = d })
		case howUnmarshal:
			var target any
			err = x.p.Unmarshal(in, &target)
			v = target
		default:
			v, err = x.p.Parse(in)
		}
		r.val = v
		r.setErr(err)
	})
	return
}

type genParserInst struct{ p gen.Parser }

func (x *genParserInst) call(buf []byte, how int) (r callResult) {
	in := append([]byte{}, buf...)
	r.pan = vx.Catch(func() {
		var n gen.Node
		var err error
		switch how {
		case howReader1:
			n, err = x.p.ParseReader(&chunkReader{data: in, chunks: chunking(len(in), len(in))})
		case howCallback:
			_, err = x.p.Parse(in, func(d gen.Node) { n = d })
		default:
			n, err = x.p.Parse(in)
		}
		r.val = simplify(n)
		r.setErr(err)
	})
	return
}

type senParserInst struct{ p sen.Parser }

func (x *senParserInst) call(buf []byte, how int) (r callResult) {
	in := append([]byte{}, buf...)
	r.pan = vx.Catch(func() {
		var v any
		var err error
		switch how {
		case howReader1:
			v, err = x.p.ParseReader(&chunkReader{data: in, chunks: chunking(len(in), len(in))})
		case howConvFloat:
			v, err = x.p.Parse(in, ojg.NumConvFloat64)
		case howCallback:
			_, err = x.p.Parse(in, func(d any) { v = d })
		default:
			v, err = x.p.Parse(in)
		}
		r.val = v
		r.setErr(err)
	})
	return
}

type validatorInst struct{ v oj.Validator }

func (x *validatorInst) call(buf []byte, how int) (r callResult) {
	in := append([]byte{}, buf...)
	r.pan = vx.Catch(func() {
		if how == howReader1 {
			r.setErr(x.v.ValidateReader(&chunkReader{data: in, chunks: chunking(len(in), len(in))}))
		} else {
			r.setErr(x.v.Validate(in))
		}
	})
	return
}

type tokenizerInst struct{ t oj.Tokenizer }

func (x *tokenizerInst) call(buf []byte, how int) (r callResult) {
	in := append([]byte{}, buf...)
	r.pan = vx.Catch(func() {
		h := &builder{}
		var err error
		if how == howReader1 {
			err = x.t.Load(&chunkReader{data: in, chunks: chunking(len(in), len(in))}, h)
		} else {
			err = x.t.Parse(in, h)
		}
		r.val = h.docs
		r.setErr(err)
	})
	return
}

// pooledOj goes through the package-level functions (sync.Pool).
type pooledOj struct{}

func (pooledOj) call(buf []byte, how int) (r callResult) {
	in := append([]byte{}, buf...)
	r.pan = vx.Catch(func() {
		var v any
		var err error
		switch how {
		case howReader1:
			v, err = oj.Load(&chunkReader{data: in, chunks: chunking(len(in), len(in))})
		case howConvFloat:
			v, err = oj.Parse(in, ojg.NumConvFloat64)
		case howCallback:
			_, err = oj.Parse(in, func(d any) { v = d })
		case howUnmarshal:
			var target any
			err = oj.Unmarshal(in, &target)
			v = target
		default:
			v, err = oj.Parse(in)
		}
		r.val = v
		r.setErr(err)
	})
	return
}

type pooledSen struct{}

func (pooledSen) call(buf []byte, how int) (r callResult) {
	in := append([]byte{}, buf...)
	r.pan = vx.Catch(func() {
		var v any
		var err error
		switch how {
		case howReader1:
			v, err = sen.ParseReader(&chunkReader{data: in, chunks: chunking(len(in), len(in))})
		case howConvFloat:
			v, err = sen.Parse(in, ojg.NumConvFloat64)
		default:
			v, err = sen.Parse(in)
		}
		r.val = v
		r.setErr(err)
	})
	return
}

const numInstKinds = 8

var instNames = [...]string{"oj.Parser", "gen.Parser", "sen.Parser", "oj.Validator", "oj.Tokenizer", "oj.Parse(pooled)", "sen.Parse(pooled)", "sen.Tokenizer"}

func newInstance(kind int) instance {
	switch kind {
	case 0:
		return &ojParserInst{}
	case 1:
		return &genParserInst{}
	case 2:
		return &senParserInst{}
	case 3:
		return &validatorInst{}
	case 4:
		return &tokenizerInst{}
	case 5:
		return pooledOj{}
	case 7:
		return &senTokenizerInst{}
	}
	return pooledSen{}
}

type senTokenizerInst struct{ t sen.Tokenizer }

func (x *senTokenizerInst) call(buf []byte, how int) (r callResult) {
	in := append([]byte{}, buf...)
	r.pan = vx.Catch(func() {
		h := &builder{}
		var err error
		if how == howReader1 {
			err = x.t.Load(&chunkReader{data: in, chunks: chunking(len(in), len(in))}, h)
		} else {
			err = x.t.Parse(in, h)
		}
		r.val = h.docs
		r.setErr(err)
	})
	return
}

// first-call inputs: a prefix that leaves the instance in an interesting
// state, followed by one symbolic byte; or two fully symbolic bytes.
var firstPrefixes = [...]string{"", "1", "[1", "\"a", "{\"a\":", "[\"a\"+", "1.5e", "tr", "[1,[2", "{\"a\":{\"b\":1},", "12"}

func firstInput() ([]byte, string) {
	k := vx.Choose("first", len(firstPrefixes)+1)
	if k == len(firstPrefixes) {
		return vx.Bytes("A", 2), "??"
	}
	p := firstPrefixes[k]
	if k == len(firstPrefixes)-1 {
		return []byte(p), p // a bare number ending exactly at the end of the input
	}
	return append([]byte(p), vx.Byte("A")), p + "?"
}

var secondInputs = [...]string{"3", "[3]", "\"b\"", "{\"b\":2}", "1.5", "[1,\"x\",{}]", "tru", "[", "-7"}

// VerifC07_Reuse: a first call (any input from the prefix menu plus a
// symbolic byte, any entry point / argument) followed by a second call on
// the same instance, compared with the second call on a fresh instance.
func VerifC07_Reuse() {
	kind := vx.Choose("instance", numInstKinds)
	how1 := vx.Choose("how1", numHows)
	how2 := vx.Choose("how2", 2) // Parse or ParseReader
	a, adesc := firstInput()
	b := []byte(secondInputs[vx.Choose("second", len(secondInputs))])
	vx.Key("instance", instNames[kind])
	vx.Key("how1", howNames[how1])
	vx.Key("first", adesc)
	vx.Key("second", string(b))
	vx.Key("how2", howNames[how2])
	used := newInstance(kind)
	r1 := used.call(a, how1)
	if r1.pan {
		vx.Cover("first-call-panicked", true) // reported by C06
		return
	}
	kept := vref.Copy(r1.val)
	r2 := used.call(b, how2)
	fresh := newInstance(kind).call(b, how2)
	vx.Assert("no-panic", !r2.pan)
	if r2.pan || fresh.pan {
		return
	}
	vx.Observe("err2", r2.err != nil)
	vx.Assert("same-error-ness-as-fresh", (r2.err == nil) == (fresh.err == nil))
	if r2.err == nil && fresh.err == nil {
		vx.Assert("same-result-as-fresh", vref.TreeEqual(fresh.val, r2.val))
	}
	if r2.err != nil && fresh.err != nil && r2.pos && fresh.pos {
		vx.Assert("same-position-as-fresh", vx.And(r2.line == fresh.line, r2.col == fresh.col))
	}
	if r1.err == nil {
		vx.Assert("earlier-result-not-altered", vref.TreeEqual(kept, r1.val))
	}
	vx.Cover("first-ok", r1.err == nil)
	vx.Cover("first-failed", r1.err != nil)
}

// VerifC07_Writers: a second write on a reused oj.Writer / sen.Writer or
// through the pooled package-level functions equals the write on a fresh
// writer, and strings / Marshal results returned earlier are not altered.
// failingWriter is an io.Writer whose every Write reports an error.
type failingWriter struct{}

func (failingWriter) Write(p []byte) (int, error) { return 0, errWriteFailed }

var errWriteFailed = errors.New("write failed")

func VerifC07_Writers() {
	api := vx.Choose("api", 10)
	s1, s2 := vx.Choose("shape1", numWShapes), vx.Choose("shape2", 3)
	vx.Key("api", []string{"oj.Writer.JSON", "sen.Writer.SEN", "oj.JSON(pooled)", "oj.Marshal(pooled)", "sen.String(pooled)",
		"oj.Writer.Write(failing writer) then JSON", "sen.Writer.Write(failing writer) then SEN", "oj.Write(pooled, failing writer) then oj.JSON",
		"oj.Marshal(v, caller's Writer) then Writer.JSON", "pretty.Writer.Write then Marshal"}[api])
	vx.Key("shape1", s1)
	vx.Key("shape2", s2)
	if api == 7 && (s1 > 3 || s2 != 0) {
		vx.Assume(false) // the long second document is costly: a few first shapes only
	}
	v1 := wTree(s1)
	// the second value is concrete: what matters is the state the first write left behind
	v2 := []any{
		[]any{int64(1), "x", map[string]any{"k": nil}},
		map[string]any{"a": "", "b": []any{}},
		"plain",
	}[s2]
	o := &ojg.Options{Sort: true}
	var first, second, fresh string
	var firstBytes, firstCopy []byte
	pan := vx.Catch(func() {
		switch api {
		case 0:
			w := &oj.Writer{Options: *o}
			first = w.JSON(v1)
			second = w.JSON(v2)
			fresh = (&oj.Writer{Options: *o}).JSON(v2)
		case 1:
			w := &sen.Writer{Options: *o}
			first = w.SEN(v1)
			second = w.SEN(v2)
			fresh = (&sen.Writer{Options: *o}).SEN(v2)
		case 2:
			first = oj.JSON(v1, o)
			second = oj.JSON(v2, o)
			fresh = (&oj.Writer{Options: *o}).JSON(v2)
		case 3:
			firstBytes, _ = oj.Marshal(v1, o)
			firstCopy = append([]byte{}, firstBytes...)
			b2, _ := oj.Marshal(v2, o)
			second = string(b2)
			fresh = (&oj.Writer{Options: *o}).JSON(v2)
		case 5:
			// a write that fails (the io.Writer reports an error), then an
			// in-memory call longer than the WriteLimit
			w := &oj.Writer{Options: *o}
			w.WriteLimit = 8
			_ = w.Write(failingWriter{}, v1)
			second = w.JSON(v2)
			fw := &oj.Writer{Options: *o}
			fw.WriteLimit = 8
			fresh = fw.JSON(v2)
		case 6:
			w := &sen.Writer{Options: *o}
			w.WriteLimit = 8
			_ = w.Write(failingWriter{}, v1)
			second = w.SEN(v2)
			fw := &sen.Writer{Options: *o}
			fw.WriteLimit = 8
			fresh = fw.SEN(v2)
		case 8:
			// Marshal with the caller's Writer, then the same Writer on a value with a nil slice
			w := &oj.Writer{Options: *o}
			firstBytes, _ = oj.Marshal(v1, w)
			firstCopy = append([]byte{}, firstBytes...)
			nv := []any{[]any(nil), v2}
			second = w.JSON(nv)
			fresh = (&oj.Writer{Options: *o}).JSON(nv)
		case 9:
			// a streamed pretty write, then an in-memory one on the same Writer
			w := &pretty.Writer{Width: 20, MaxDepth: 2}
			_ = w.Write(&recorder{}, v1)
			b2, _ := w.Marshal(v2)
			second = string(b2)
			fb, _ := (&pretty.Writer{Width: 20, MaxDepth: 2}).Marshal(v2)
			fresh = string(fb)
		case 7:
			// through the pool, default WriteLimit (1024): the second document is longer
			big := []any{v2, string(make([]byte, 1500))}
			_ = oj.Write(failingWriter{}, v1)
			second = oj.JSON(big)
			fresh = (&oj.Writer{}).JSON(big)
		default:
			first = sen.String(v1, o)
			second = sen.String(v2, o)
			fresh = (&sen.Writer{Options: *o}).SEN(v2)
		}
	})
	vx.Assert("no-panic", !pan)
	if pan {
		return
	}
	vx.Observe("second", second)
	vx.Assert("second-write-equals-fresh", len(second) == len(fresh) && vx.StrEq(second, fresh))
	if api == 3 || api == 8 {
		vx.Assert("marshal-result-not-altered", len(firstBytes) == len(firstCopy) && vx.BytesEq(firstBytes, firstCopy))
	}
	_ = first
	vx.Cover("done", true)
}
