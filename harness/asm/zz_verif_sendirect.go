package asm

import (
	"github.com/ohler55/ojg/internal/vx"
	"github.com/ohler55/ojg/oj"
	"github.com/ohler55/ojg/sen"
)

// VerifSEN_Direct: every byte string of length <= N through sen.Parser.Parse
// and sen.Tokenizer: no panic, and the call returns (C06).
func VerifSEN_Direct() {
	n := vx.Choose("len", vx.Param("N", 3)+1)
	buf := vx.Bytes("in", n)
	vx.Key("len", n)
	var err1, err2 error
	pan := vx.Catch(func() { _, err1 = (&sen.Parser{}).Parse(append([]byte{}, buf...)) })
	if pan && n > 0 {
		vx.Key("b0", vx.Concrete(int(buf[0])))
	}
	vx.Assert("no-panic:sen.Parse", !pan)
	pan = vx.Catch(func() { err2 = (&sen.Tokenizer{}).Parse(append([]byte{}, buf...), &oj.ZeroHandler{}) })
	vx.Assert("no-panic:sen.Tokenize", !pan)
	vx.Observe("err1", err1 != nil)
	vx.Cover("accepted", vx.And(err1 == nil, err2 == nil))
	vx.Cover("rejected", err1 != nil)
}
