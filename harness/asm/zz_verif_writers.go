package asm

import (
	"strconv"

	"github.com/ohler55/ojg"
	"github.com/ohler55/ojg/internal/vref"
	"github.com/ohler55/ojg/internal/vx"
	"github.com/ohler55/ojg/oj"
)

// ---- value trees with symbolic leaves ----

const numWShapes = 10

// wLeaf is a leaf of a kind chosen per position.
// The first leaf ("a") ranges over every kind, later ones over nil / int only
// (strings are covered in depth by the string kernel harness).
func wLeaf(tag string) any {
	kinds := 2
	if tag == "a" {
		kinds = 5
	}
	switch vx.Choose(tag+"-kind", kinds) {
	case 0:
		return nil
	case 1:
		if vx.Param("BIGINT", 0) == 1 {
			return vx.Int64(tag + "i")
		}
		return int64(vx.IntIn(tag+"i", -99, 99))
	case 2:
		return vx.Bool(tag + "b")
	case 3:
		return vx.String(tag+"s", vx.Choose(tag+"slen", vx.Param("SLEN", 1)+1))
	}
	return []float64{0, 1.5, -2.25e10, 1e-7}[vx.Choose(tag+"f", 4)]
}

func wKey(tag string) string { return vx.String(tag, 1+vx.Choose(tag+"len", vx.Param("KLEN", 1))) }

func wTree(shape int) any {
	switch shape {
	case 0:
		return wLeaf("a")
	case 1:
		return []any{}
	case 2:
		return map[string]any{}
	case 3:
		return []any{wLeaf("a"), wLeaf("b")}
	case 4:
		return map[string]any{wKey("k"): wLeaf("a")}
	case 5:
		return map[string]any{"x": wLeaf("a"), "y": wLeaf("b")}
	case 6:
		return []any{[]any{wLeaf("a")}, map[string]any{"k": wLeaf("b")}, []any{}}
	case 7:
		return map[string]any{"a": []any{wLeaf("a"), nil}, "b": map[string]any{}, "c": map[string]any{"d": wLeaf("b")}}
	case 8:
		return map[string]any{"p": nil, "q": wLeaf("a"), "r": nil}
	}
	return []any{nil, map[string]any{"z": nil}, wLeaf("a")}
}

// isEmpty: what OmitEmpty drops in a simple tree (empty strings, slices and
// maps; nil is OmitNil's business, zero numbers and false are kept).
func isEmpty(v any) bool {
	switch tv := v.(type) {
	case string:
		return len(tv) == 0
	case []any:
		return len(tv) == 0
	case map[string]any:
		return len(tv) == 0
	}
	return false
}

// matches: the decoded tree d denotes the input tree v, minus exactly the
// object members OmitNil / OmitEmpty drop.
func matches(v any, d any, omitNil, omitEmpty bool) bool {
	switch tv := v.(type) {
	case nil:
		return d == nil
	case bool:
		td, ok := d.(bool)
		return vx.And(ok, td == tv)
	case int64:
		td, ok := d.(vref.Num)
		if !ok {
			return false
		}
		want := strconv.FormatInt(tv, 10)
		return len(td.Text) == len(want) && vx.StrEq(td.Text, want)
	case float64:
		td, ok := d.(vref.Num)
		if !ok {
			return false
		}
		f, err := strconv.ParseFloat(td.Text, 64)
		return err == nil && f == tv
	case string:
		td, ok := d.(string)
		if !ok {
			return false
		}
		want := sanitizeUTF8(tv)
		return len(td) == len(want) && vx.StrEq(td, want)
	case []any:
		td, ok := d.([]any)
		if !ok || len(td) != len(tv) {
			return false
		}
		eq := true
		for i := range tv {
			eq = vx.And(eq, matches(tv[i], td[i], omitNil, omitEmpty))
		}
		return eq
	case map[string]any:
		td, ok := d.(map[string]any)
		if !ok {
			return false
		}
		kept := 0
		eq := true
		for k, e := range tv {
			if (omitNil && e == nil) || (omitEmpty && isEmpty(e)) {
				continue
			}
			kept++
			de, has := td[sanitizeUTF8(k)]
			if !has {
				return false
			}
			eq = vx.And(eq, matches(e, de, omitNil, omitEmpty))
		}
		return vx.And(eq, kept == len(td))
	}
	return false
}

func sanitizeUTF8(s string) string {
	out := []byte{}
	for i := 0; i < len(s); {
		r, n := decodeRune(s[i:])
		if r == 0xFFFD && n == 1 {
			out = append(out, 0xEF, 0xBF, 0xBD)
		} else {
			out = append(out, s[i:i+n]...)
		}
		i += n
	}
	return string(out)
}

// recorder is an io.Writer that keeps everything written.
type recorder struct {
	data   []byte
	writes int
}

func (r *recorder) Write(p []byte) (int, error) {
	r.data = append(r.data, p...)
	r.writes++
	return len(p), nil
}

func wOptions() (*ojg.Options, string) {
	o := &ojg.Options{}
	desc := ""
	flag := func(name string, p *bool) {
		if vx.Choose(name, 2) == 1 {
			*p = true
			desc += name + " "
		}
	}
	flag("sort", &o.Sort)
	flag("omitnil", &o.OmitNil)
	flag("omitempty", &o.OmitEmpty)
	if vx.Param("HTML", 0) == 1 {
		flag("htmlunsafe", &o.HTMLUnsafe)
	}
	switch vx.Choose("layout", 4) {
	case 1:
		o.Indent = 2
		desc += "indent2 "
	case 2:
		o.Tab = true
		desc += "tab "
	case 3:
		// deep indentation around the 128-byte spaces string (depth <= 3)
		o.Indent = []int{1, 3, 42, 43, 64, 127, 128, 200}[vx.Choose("indent", 8)]
		desc += "indentN "
	}
	return o, desc
}

// streamOptions: the options that select a different set of append functions.
func streamOptions() (*ojg.Options, string) {
	o := &ojg.Options{}
	desc := ""
	if vx.Choose("sort", 2) == 1 {
		o.Sort = true
		desc += "sort "
	}
	if vx.Param("OMIT", 0) == 1 && vx.Choose("omitnil", 2) == 1 {
		o.OmitNil = true
		desc += "omitnil "
	}
	switch vx.Choose("layout", 3) {
	case 1:
		o.Indent = 2
		desc += "indent2 "
	case 2:
		o.Tab = true
		desc += "tab "
	}
	return o, desc
}

// VerifC04_Tree: oj.Writer.JSON / oj.JSON on value trees with symbolic
// leaves under every option combination: valid JSON (reference decoder)
// denoting the input minus the omitted members.
func VerifC04_Tree() {
	shape := vx.Choose("shape", numWShapes)
	o, desc := wOptions()
	v := wTree(shape)
	vx.Key("shape", shape)
	vx.Key("opts", desc)
	var out string
	pan := vx.Catch(func() {
		wr := oj.Writer{Options: *o}
		out = wr.JSON(v)
	})
	vx.Assert("no-panic", !pan)
	if pan {
		return
	}
	vx.Observe("outlen", len(out)) // (the text itself depends on Go's map iteration order)
	d, ok := vref.Decode([]byte(out))
	vx.Assert("output-is-valid-json", ok)
	if !ok {
		return
	}
	vx.Assert("output-denotes-input", matches(v, d, o.OmitNil, o.OmitEmpty))
	vx.Cover("done", true)
}

// VerifC04_Stream: Writer.Write with a symbolic WriteLimit emits exactly
// the bytes of the in-memory call.
func VerifC04_Stream() {
	shape := vx.Choose("shape", numWShapes)
	o, desc := streamOptions()
	v := wTree(shape)
	vx.Key("shape", shape)
	vx.Key("opts", desc)
	var mem []byte
	if vx.Catch(func() {
		wr := oj.Writer{Options: *o}
		mem = append([]byte{}, wr.MustJSON(v)...)
	}) {
		return // reported by VerifC04_Tree
	}
	limit := vx.IntIn("limit", 1, 48)
	rec := &recorder{}
	var err error
	pan := vx.Catch(func() {
		wr := oj.Writer{Options: *o}
		wr.WriteLimit = limit
		err = wr.Write(rec, v)
	})
	vx.Assert("no-panic", !pan)
	if pan {
		return
	}
	vx.Assert("no-error", err == nil)
	vx.Observe("streamed-len", len(rec.data))
	if o.Sort || shape < 5 || shape == 6 || shape == 9 {
		vx.Assert("stream-equals-memory", len(rec.data) == len(mem) && vx.BytesEq(rec.data, mem))
	} else {
		// several members and no Sort: two native calls may iterate the map in
		// different orders, so the comparison is up to member order
		d1, ok1 := vref.Decode(mem)
		d2, ok2 := vref.Decode(rec.data)
		vx.Assert("stream-equals-memory", vx.And(len(rec.data) == len(mem), vx.And(vx.And(ok1, ok2), decodedEqual(d1, d2))))
	}
	vx.Cover("flushed-midway", rec.writes > 1)
	vx.Cover("single-write", rec.writes <= 1)
}

// VerifC04_Sort: with Sort the text does not depend on map iteration order
// and members appear in ascending key order.
func VerifC04_Sort() {
	o := &ojg.Options{Sort: true, HTMLUnsafe: true}
	layout := vx.Choose("layout", 6) // tight, Indent 2, streamed tight, streamed Indent 2, streamed Tab, Tab
	switch layout {
	case 1, 3:
		o.Indent = 2
	case 4, 5:
		o.Tab = true
	}
	streamed := layout == 2 || layout == 3 || layout == 4
	vx.Key("layout", layout)
	plain := func() string {
		b := vx.Byte("k")
		vx.Assume(vx.And(vx.And('0' <= b, b <= 'z'), b != '\\'))
		return string([]byte{b})
	}
	k1, k2, k3 := plain(), plain(), plain()
	vx.Assume(vx.And(vx.Not(sameStr(k1, k2)), vx.And(vx.Not(sameStr(k1, k3)), vx.Not(sameStr(k2, k3)))))
	mk := func() map[string]any {
		return map[string]any{k1: int64(1), k2: int64(2), k3: int64(3)}
	}
	wr := oj.Writer{Options: *o}
	ref := wr.JSON(mk())
	vx.MapOrders(true)
	wr2 := oj.Writer{Options: *o}
	var out string
	if streamed {
		rec := &recorder{}
		if err := wr2.Write(rec, mk()); err != nil {
			vx.Fail("stream-write-error")
		}
		out = string(rec.data)
	} else {
		out = wr2.JSON(mk())
	}
	vx.MapOrders(false)
	vx.Observe("out", out)
	vx.Assert("sorted-output-is-deterministic", len(out) == len(ref) && vx.StrEq(out, ref))
	// ascending: the decoded members in order of appearance
	d, ok := vref.Decode([]byte(out))
	vx.Assert("output-is-valid-json", ok)
	if ok {
		m, _ := d.(map[string]any)
		vx.Assert("three-members", len(m) == 3)
	}
	ks := keyOrder([]byte(out))
	asc := true
	for i := 0; i+1 < len(ks); i++ {
		asc = vx.And(asc, ks[i] < ks[i+1])
	}
	vx.Assert("keys-ascending", vx.And(len(ks) == 3, asc))
	vx.Cover("done", true)
}

func sameStr(a, b string) bool { return len(a) == len(b) && vx.StrEq(a, b) }

// keyOrder returns the raw (still escaped) key texts of a one-level object in order of appearance.
func keyOrder(out []byte) []string {
	var ks []string
	i := 0
	for i < len(out) {
		if out[i] != '"' {
			i++
			continue
		}
		j := i + 1
		for j < len(out) && out[j] != '"' {
			if out[j] == '\\' {
				j++
			}
			j++
		}
		ks = append(ks, string(out[i+1:j]))
		// skip to after the value (values are single digits here)
		i = j + 1
		for i < len(out) && out[i] != ',' {
			i++
		}
	}
	return ks
}

// decodedEqual compares two trees produced by the reference decoder.
func decodedEqual(a, b any) bool {
	switch ta := a.(type) {
	case nil:
		return b == nil
	case bool:
		tb, ok := b.(bool)
		return vx.And(ok, ta == tb)
	case vref.Num:
		tb, ok := b.(vref.Num)
		return ok && len(ta.Text) == len(tb.Text) && vx.StrEq(ta.Text, tb.Text)
	case string:
		tb, ok := b.(string)
		return ok && len(ta) == len(tb) && vx.StrEq(ta, tb)
	case []any:
		tb, ok := b.([]any)
		if !ok || len(ta) != len(tb) {
			return false
		}
		eq := true
		for i := range ta {
			eq = vx.And(eq, decodedEqual(ta[i], tb[i]))
		}
		return eq
	case map[string]any:
		tb, ok := b.(map[string]any)
		if !ok || len(ta) != len(tb) {
			return false
		}
		eq := true
		for k, va := range ta {
			vb, has := tb[k]
			if !has {
				return false
			}
			eq = vx.And(eq, decodedEqual(va, vb))
		}
		return eq
	}
	return false
}
