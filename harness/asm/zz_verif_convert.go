package asm

import (
	"github.com/ohler55/ojg"
	"github.com/ohler55/ojg/alt"
	"github.com/ohler55/ojg/gen"
	"github.com/ohler55/ojg/internal/vref"
	"github.com/ohler55/ojg/internal/vx"
	"github.com/ohler55/ojg/oj"
)

// cLeaf: a JSON-like leaf of every kind with symbolic content.
func cLeaf(tag string) any {
	switch vx.Choose(tag+"-kind", 5) {
	case 0:
		return nil
	case 1:
		return vx.Bool(tag + "b")
	case 2:
		return vx.Int64(tag + "i")
	case 3:
		// floats are only copied here: a concrete menu (symbolic floats make every
		// comparison a floating-point query, which the incremental solver handles badly)
		return []float64{0, 1.5, -2.5e300, 5e-324}[vx.Choose(tag+"f", 4)]
	}
	return vx.String(tag+"s", vx.Choose(tag+"slen", 3))
}

const numCShapes = 7

func cTree(shape int) any {
	switch shape {
	case 0:
		return cLeaf("a")
	case 1:
		return []any{}
	case 2:
		return map[string]any{}
	case 3:
		return []any{cLeaf("a"), []any{cLeaf("b")}, map[string]any{}}
	case 4:
		return map[string]any{"x": cLeaf("a"), "y": []any{cLeaf("b"), []any{}}}
	case 5:
		return map[string]any{"m": map[string]any{"n": cLeaf("a")}, "e": []any{}}
	}
	return []any{[]any{[]any{cLeaf("a")}}, map[string]any{"k": map[string]any{}}}
}

const (
	cvGenerifySimplify = iota
	cvGenAlterAlter
	cvDup
	cvDecompose
	cvGenDupSimplify
	cvAlter
	numConvs
)

var convNames = [...]string{"Generify+Simplify", "GenAlter+Alter", "Dup", "Decompose", "Generify+Dup+Simplify", "Alter"}

// noSharing asserts that no container of a is the same object as the
// container at the same place in b.
func noSharing(a, b any) bool {
	ok := !vx.Alias(a, b)
	switch ta := a.(type) {
	case []any:
		tb, same := b.([]any)
		if same && len(ta) == len(tb) {
			for i := range ta {
				ok = ok && noSharing(ta[i], tb[i])
			}
		}
	case map[string]any:
		tb, same := b.(map[string]any)
		if same {
			for k, va := range ta {
				if vb, has := tb[k]; has {
					ok = ok && noSharing(va, vb)
				}
			}
		}
	}
	return ok
}

// scribble overwrites every member of every container of v.
func scribble(v any) {
	switch tv := v.(type) {
	case []any:
		for i := range tv {
			scribble(tv[i])
			tv[i] = "scribbled"
		}
	case map[string]any:
		for k, e := range tv {
			scribble(e)
			tv[k] = "scribbled"
		}
		tv["added"] = true
	}
}

// VerifC18_Convert: Generify/Simplify, GenAlter/Alter, Dup, Decompose and
// gen Dup preserve the value exactly (nulls kept) and, for the copying
// operations, share no container with their input: scribbling over either
// side leaves the other unchanged.
func VerifC18_Convert() {
	conv := vx.Choose("conv", numConvs)
	shape := vx.Choose("shape", numCShapes)
	vx.Key("conv", convNames[conv])
	vx.Key("shape", shape)
	orig := cTree(shape)
	pristine := vref.Copy(orig)
	keep := &ojg.Options{} // OmitNil off: nulls are kept
	var out any
	pan := vx.Catch(func() {
		switch conv {
		case cvGenerifySimplify:
			out = simplifyNode(alt.Generify(orig, keep))
		case cvGenAlterAlter:
			n := alt.GenAlter(vref.Copy(orig), keep)
			if n != nil {
				out = n.Alter()
			}
		case cvDup:
			out = alt.Dup(orig, keep)
		case cvDecompose:
			out = alt.Decompose(orig, keep)
		case cvGenDupSimplify:
			n := alt.Generify(orig, keep)
			if n != nil {
				out = simplifyNode(n.Dup())
			}
		case cvAlter:
			out = alt.Alter(vref.Copy(orig), keep)
		}
	})
	vx.Assert("no-panic", !pan)
	if pan {
		return
	}
	vx.Assert("value-preserved", vref.TreeEqual(pristine, out))
	vx.Assert("input-unchanged", vref.TreeEqual(pristine, orig))
	copying := conv == cvGenerifySimplify || conv == cvDup || conv == cvDecompose || conv == cvGenDupSimplify
	if copying {
		vx.Assert("no-shared-containers", noSharing(orig, out))
		// mutate the copy: the original must not change, and vice versa
		snapshot := vref.Copy(out)
		scribble(out)
		vx.Assert("original-survives-mutation-of-copy", vref.TreeEqual(pristine, orig))
		out2 := snapshot
		_ = out2
	}
	vx.Cover("done", true)
}

// VerifC18_MutateOriginal: the copy does not change when the original is
// scribbled over (the other direction of the aliasing experiment).
func VerifC18_MutateOriginal() {
	conv := []int{cvGenerifySimplify, cvDup, cvDecompose, cvGenDupSimplify}[vx.Choose("conv", 4)]
	shape := vx.Choose("shape", numCShapes)
	vx.Key("conv", convNames[conv])
	vx.Key("shape", shape)
	orig := cTree(shape)
	pristine := vref.Copy(orig)
	keep := &ojg.Options{}
	var out any
	var node gen.Node
	pan := vx.Catch(func() {
		switch conv {
		case cvGenerifySimplify:
			node = alt.Generify(orig, keep)
		case cvDup:
			out = alt.Dup(orig, keep)
		case cvDecompose:
			out = alt.Decompose(orig, keep)
		case cvGenDupSimplify:
			node = alt.Generify(orig, keep)
			if node != nil {
				node = node.Dup()
			}
		}
	})
	vx.Assert("no-panic", !pan)
	if pan {
		return
	}
	scribble(orig)
	if conv == cvGenerifySimplify || conv == cvGenDupSimplify {
		out = simplifyNode(node)
	}
	vx.Assert("copy-survives-mutation-of-original", vref.TreeEqual(pristine, out))
	vx.Cover("done", true)
}

// genScribble adds a member to every gen.Object and overwrites every
// element of every gen.Array of n.
func genScribble(n gen.Node) {
	switch tn := n.(type) {
	case gen.Array:
		for i := range tn {
			genScribble(tn[i])
			tn[i] = gen.String("scribbled")
		}
	case gen.Object:
		for k, e := range tn {
			genScribble(e)
			tn[k] = gen.String("scribbled")
		}
		tn["added"] = gen.True
	}
}

// VerifC18_GenDup: gen Dup shares nothing with its receiver: scribbling
// over the duplicate (or the original) leaves the other unchanged.
func VerifC18_GenDup() {
	shape := vx.Choose("shape", numCShapes)
	which := vx.Choose("scribble", 2)
	vx.Key("shape", shape)
	vx.Key("scribble", which)
	orig := cTree(shape)
	pristine := vref.Copy(orig)
	n := alt.Generify(orig, &ojg.Options{})
	if n == nil {
		vx.Assert("dup-of-nil", true)
		return
	}
	var d gen.Node
	pan := vx.Catch(func() { d = n.Dup() })
	vx.Assert("no-panic", !pan)
	if pan {
		return
	}
	vx.Assert("dup-equals-original", vref.TreeEqual(pristine, simplifyNode(d)))
	if which == 0 {
		genScribble(d)
		vx.Assert("original-survives-mutation-of-dup", vref.TreeEqual(pristine, simplifyNode(n)))
	} else {
		genScribble(n)
		vx.Assert("dup-survives-mutation-of-original", vref.TreeEqual(pristine, simplifyNode(d)))
	}
	vx.Cover("done", true)
}

func simplifyNode(n gen.Node) any {
	if n == nil {
		return nil
	}
	return n.Simplify()
}

// VerifC18_WriteGen: the JSON text of a gen tree equals the text of its
// simple equivalent (Sort on, so that member order is defined).
func VerifC18_WriteGen() {
	shape := vx.Choose("shape", numWShapes)
	vx.Key("shape", shape)
	v := wTree(shape) // the writer shapes of C04 (small symbolic ints, short strings, concrete floats)
	o := &ojg.Options{Sort: true}
	if vx.Choose("indent", 2) == 1 {
		o.Indent = 2
	}
	var s1, s2 string
	pan := vx.Catch(func() {
		w1 := oj.Writer{Options: *o}
		s1 = w1.JSON(v)
		w2 := oj.Writer{Options: *o}
		s2 = w2.JSON(alt.Generify(vref.Copy(v), &ojg.Options{}))
	})
	vx.Assert("no-panic", !pan)
	if pan {
		return
	}
	vx.Observe("text", s1)
	vx.Assert("gen-and-simple-print-identically", len(s1) == len(s2) && vx.StrEq(s1, s2))
	vx.Cover("done", true)
}
