package asm

import "encoding/json"

func jsonNum(s string) json.Number { return json.Number(s) }
