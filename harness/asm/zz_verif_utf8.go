package asm

import "unicode/utf8"

func decodeRune(s string) (rune, int) { return utf8.DecodeRuneInString(s) }
