package asm

import (
	"github.com/ohler55/ojg/internal/vx"
	"github.com/ohler55/ojg/jp"
)

// JSONPath / filter-script text with free symbolic bytes at the '?' places.
var c06PathTemplates = [...]string{
	`$.a[?]`, `$[?:?]`, `$[?,?]`, `$['?']`, `$..?`, `$[1:?:?]`, `@.a[?`, `$.?.?`, `$[?(@.a)?]`,
	`[?(@.a?1)]`, `[?(@.a ?? 1)]`, `[?(?@.a)]`, `[?(@.a == ?)]`, `[?(@.a == '?')]`, `[?(1 ? 2 ? 3)]`,
	`[?(length(@.?) > 1)]`, `[?(@.a in [?])]`, `[?@.a?]`, `[?(@.a ?= [1,2])]`, `[?((@.a)?(@.b))]`,
	`[?(@.a has ?)]`, `[?(@.a exists ?rue)]`, `[?(!?)]`, `[?(-?)]`, `$[?(@[?] == 1)]`, `$[?(@.a == 1.?)]`, `$[?(@.a == "?\?")]`,
	`$[(?)]`, `[(??)]`, `$.a[(@.?)]`, `['?]'][(?`, `$[(@.a ? 1)]`, `[?1<(?)]`, `[?!(?)]`, `[?(1)?2]`, `[?count((?))]`, `[?(?(@.x))]`,
}

// the data parsed paths are evaluated on
func c06Data() any {
	return map[string]any{
		"a": []any{int64(1), "x", map[string]any{"b": int64(2), "a": 1.5}, nil, true, []any{int64(3)}},
		"b": map[string]any{"a": int64(3), "x": "y"},
		"x": int64(7),
	}
}

// VerifC06_JP: jp.MustParse on arbitrary text never fails with a runtime
// fault (its panics carry an error), jp.Parse never panics, and a path that
// parsed can be printed and evaluated (Get, First, Has, Locate) without a panic.
func VerifC06_JP() {
	var buf []byte
	nt := len(c06PathTemplates)
	k := vx.Choose("template", nt+1)
	if k == nt {
		n := vx.Choose("len", vx.Param("N", 4)+1)
		buf = make([]byte, n)
		for i := range buf {
			buf[i] = vx.Byte("in")
		}
		vx.Key("template", "free")
		vx.Key("len", n)
	} else {
		tmpl := c06PathTemplates[k]
		buf = make([]byte, len(tmpl))
		for i := 0; i < len(tmpl); i++ {
			if tmpl[i] == '?' {
				buf[i] = vx.Byte("in")
			} else {
				buf[i] = tmpl[i]
			}
		}
		vx.Key("template", tmpl)
	}
	var x jp.Expr
	pan, val := vx.CatchVal(func() { x = jp.MustParse(append([]byte{}, buf...)) })
	if pan {
		vx.Assert("no-runtime-fault:jp.MustParse", !vx.IsRuntimeError(val))
		_, isErr := val.(error)
		vx.Assert("panic-carries-error:jp.MustParse", isErr)
	}
	var err error
	var x2 jp.Expr
	pan2 := vx.Catch(func() { x2, err = jp.Parse(append([]byte{}, buf...)) })
	vx.Assert("no-panic:jp.Parse", !pan2)
	if !pan2 {
		vx.Assert("parse-agrees-with-must", (err != nil) == pan)
	}
	vx.Cover("accepted", !pan)
	vx.Cover("rejected", pan)
	if pan || pan2 || err != nil {
		return
	}
	_ = x2
	vx.Assert("no-panic:String", !vx.Catch(func() { _ = x.String() }))
	data := c06Data()
	vx.Assert("no-panic:Get", !vx.Catch(func() { _ = x.Get(data) }))
	vx.Assert("no-panic:First", !vx.Catch(func() { _ = x.First(data) }))
	vx.Assert("no-panic:Has", !vx.Catch(func() { _ = x.Has(data) }))
	vx.Assert("no-panic:Locate", !vx.Catch(func() { _ = x.Locate(data, 0) }))
}
