package asm

import (
	"github.com/ohler55/ojg/internal/vref"
	"github.com/ohler55/ojg/internal/vx"
	"github.com/ohler55/ojg/sen"
)

// ---- arguments ----

const (
	akInt = iota
	akPathInt
	akNestedSum
	akBool
	akString
	akNil
	akFloat
	numAKinds
)

var akNames = [...]string{"int", "path", "nested", "bool", "string", "nil", "float"}

// planArg is an argument of a plan function together with the value it
// evaluates to (for the reference).
type planArg struct {
	expr any // what goes into the plan
	kind int // akInt (int64 value), akBool, akString, akNil, akFloat
	i    int64
	b    bool
	s    string
	f    float64
}

// mkArg builds argument number n of the given kind. Integer values are
// symbolic (small); paths read them from $.src; nested is ["sum", x, 1].
func mkArg(n int, kind int, src map[string]any, concreteInts bool) planArg {
	tag := string([]byte{'a' + byte(n)})
	intVal := func() int64 {
		if concreteInts {
			return int64(3 - 2*n) // symbolic int + float would be symbolic float arithmetic: outside the claim
		}
		return int64(vx.IntIn(tag, -8, 7))
	}
	switch kind {
	case akInt:
		v := intVal()
		return planArg{expr: v, kind: akInt, i: v}
	case akPathInt:
		v := intVal()
		src[tag] = v
		return planArg{expr: "$.src." + tag, kind: akInt, i: v}
	case akNestedSum:
		v := intVal()
		return planArg{expr: []any{"sum", v, int64(1)}, kind: akInt, i: v + 1}
	case akBool:
		v := vx.Bool(tag)
		return planArg{expr: v, kind: akBool, b: v}
	case akString:
		v := "s" + tag
		return planArg{expr: v, kind: akString, s: v}
	case akFloat:
		v := []float64{1.5, -2, 0}[vx.Choose(tag+"f", 3)]
		return planArg{expr: v, kind: akFloat, f: v}
	}
	return planArg{expr: nil, kind: akNil}
}

var planFns = [...]string{"sum", "dif", "product", "quotient", "lt", "gt", "lte", "gte", "eq", "neq", "and", "or", "not", "size", "nth", "reverse", "append", "cond", "mod"}

func allInts(args []planArg) bool {
	for _, a := range args {
		if a.kind != akInt {
			return false
		}
	}
	return true
}

func allBools(args []planArg) bool {
	for _, a := range args {
		if a.kind != akBool {
			return false
		}
	}
	return true
}

// refResult computes what the function descriptions in asm/doc.go say for
// all-integer (arithmetic, comparison) and all-boolean (logic) arguments;
// spec=false where the description leaves the cell open.
func refResult(fn string, args []planArg) (res any, spec bool) {
	if len(args) == 0 {
		return nil, false
	}
	switch fn {
	case "quotient":
		// all numbers, no zero divisor: integer division for ints, float otherwise
		anyF := false
		for k, a := range args {
			if a.kind != akInt && a.kind != akFloat {
				return nil, false
			}
			anyF = anyF || a.kind == akFloat
			if k > 0 && ((a.kind == akInt && a.i == 0) || (a.kind == akFloat && a.f == 0)) {
				return nil, false
			}
		}
		if !anyF {
			acc := args[0].i
			for _, a := range args[1:] {
				acc /= a.i
			}
			return acc, true
		}
		num := func(a planArg) float64 {
			if a.kind == akInt {
				return float64(a.i)
			}
			return a.f
		}
		acc := num(args[0])
		for _, a := range args[1:] {
			acc /= num(a)
		}
		return acc, true
	case "sum", "dif", "product":
		if !allInts(args) {
			return nil, false
		}
		acc := args[0].i
		for _, a := range args[1:] {
			switch fn {
			case "sum":
				acc += a.i
			case "dif":
				acc -= a.i
			default:
				acc *= a.i
			}
		}
		return acc, true
	case "lt", "gt", "lte", "gte":
		if !allInts(args) {
			return nil, false
		}
		ok := true
		for k := 0; k+1 < len(args); k++ {
			x, y := args[k].i, args[k+1].i
			switch fn {
			case "lt":
				ok = vx.And(ok, x < y)
			case "gt":
				ok = vx.And(ok, x > y)
			case "lte":
				ok = vx.And(ok, x <= y)
			default:
				ok = vx.And(ok, x >= y)
			}
		}
		return ok, true
	case "eq":
		if !allInts(args) {
			return nil, false
		}
		ok := true
		for k := 0; k+1 < len(args); k++ {
			ok = vx.And(ok, args[k].i == args[k+1].i)
		}
		return ok, true
	case "neq":
		if !allInts(args) || len(args) != 2 {
			return nil, false
		}
		return args[0].i != args[1].i, true
	case "and", "or":
		if !allBools(args) {
			return nil, false
		}
		acc := args[0].b
		for _, a := range args[1:] {
			if fn == "and" {
				acc = vx.And(acc, a.b)
			} else {
				acc = vx.Or(acc, a.b)
			}
		}
		return acc, true
	case "not":
		if len(args) == 1 && args[0].kind == akBool {
			return !args[0].b, true
		}
	}
	return nil, false
}

func sameResult(got, want any) bool {
	switch tw := want.(type) {
	case int64:
		tg, ok := got.(int64)
		return vx.And(ok, tg == tw)
	case bool:
		tg, ok := got.(bool)
		return vx.And(ok, tg == tw)
	case float64:
		tg, ok := got.(float64)
		return ok && tg == tw
	}
	return false
}

func mkRoot(src map[string]any) map[string]any {
	return map[string]any{"src": vref.Copy(src)}
}

// VerifC20_Plan: a plan ["set", "$.asm", [fn, args...]] for every function
// of the arithmetic / comparison / logic / list family, arity 1..3,
// argument kinds enumerated, values symbolic: NewPlan and Execute never
// panic; two executions give equal roots; results equal the function
// descriptions (all-int and all-bool cells); $.src is not modified; the
// plan rebuilt from its String() behaves the same.
func VerifC20_Plan() {
	fn := planFns[vx.Choose("fn", len(planFns))]
	arity := 1 + vx.Choose("arity", vx.Param("ARITY", 3))
	src := map[string]any{"list": []any{int64(1), int64(2), int64(3)}}
	var args []planArg
	kinds := ""
	var ks []int
	anyFloat := false
	for n := 0; n < arity; n++ {
		nk := numAKinds
		if n == 2 {
			nk = 4 // third argument: int, path, nested, bool
		}
		k := vx.Choose("kind", nk)
		ks = append(ks, k)
		anyFloat = anyFloat || k == akFloat
		kinds += akNames[k] + " "
	}
	for n, k := range ks {
		args = append(args, mkArg(n, k, src, anyFloat))
	}
	vx.Key("fn", fn)
	vx.Key("kinds", kinds)
	build := func() []any {
		call := []any{fn}
		for _, a := range args {
			call = append(call, vref.Copy(a.expr))
		}
		return []any{"set", "$.asm", call}
	}
	var p *Plan
	pan := vx.Catch(func() { p = NewPlan(build()) })
	vx.Assert("no-panic:NewPlan", !pan)
	if pan || p == nil {
		return
	}
	root1, root2 := mkRoot(src), mkRoot(src)
	var err1, err2 error
	pan = vx.Catch(func() { err1 = p.Execute(root1) })
	vx.Assert("no-panic:Execute", !pan)
	if pan {
		return
	}
	pan = vx.Catch(func() { err2 = p.Execute(root2) })
	vx.Assert("no-panic:Execute", !pan)
	if pan {
		return
	}
	vx.Observe("err", err1 != nil)
	vx.Assert("deterministic", vx.And((err1 == nil) == (err2 == nil), vref.TreeEqual(root1, root2)))
	vx.Assert("src-unchanged", vref.TreeEqual(root1["src"], vref.Copy(src)))
	if want, spec := refResult(fn, args); spec {
		vx.Assert("no-error-for-documented-arguments", err1 == nil)
		if err1 == nil {
			vx.Assert("result-as-documented", sameResult(root1["asm"], want))
		}
	}
	// the printed plan rebuilds a plan with the same behaviour
	var p2 *Plan
	pan = vx.Catch(func() {
		text := p.String()
		v, perr := sen.Parse([]byte(text))
		if perr == nil {
			if list, ok := v.([]any); ok {
				p2 = NewPlan(list)
			}
		}
	})
	vx.Assert("no-panic:String", !pan)
	if !pan {
		vx.Assert("printed-plan-parses", p2 != nil)
		if p2 != nil {
			root3 := mkRoot(src)
			var err3 error
			if !vx.Catch(func() { err3 = p2.Execute(root3) }) {
				vx.Assert("printed-plan-behaves-the-same", vx.And((err1 == nil) == (err3 == nil), vref.TreeEqual(root1, root3)))
			}
		}
	}
	vx.Cover("ok", err1 == nil)
	vx.Cover("error", err1 != nil)
}

// VerifC20_Strings: the ordering and equality functions on 2..3 symbolic
// one-byte strings: true iff each argument relates to the next one.
func VerifC20_Strings() {
	fn := []string{"lt", "gt", "lte", "gte", "eq"}[vx.Choose("fn", 5)]
	n := 2 + vx.Choose("n", 2)
	vx.Key("fn", fn)
	vx.Key("n", n)
	var ss []string
	call := []any{fn}
	for i := 0; i < n; i++ {
		s := vx.String("s", 1)
		vx.Assume(vx.And(s[0] != '$', s[0] != '@')) // such strings are paths by documentation
		ss = append(ss, s)
		call = append(call, s)
	}
	p := NewPlan([]any{"set", "$.asm", call})
	root := map[string]any{"src": map[string]any{}}
	var err error
	pan := vx.Catch(func() { err = p.Execute(root) })
	vx.Assert("no-panic:Execute", !pan)
	if pan {
		return
	}
	vx.Assert("no-error-for-documented-arguments", err == nil)
	if err != nil {
		return
	}
	want := true
	for i := 0; i+1 < n; i++ {
		a, b := ss[i], ss[i+1]
		switch fn {
		case "lt":
			want = vx.And(want, a < b)
		case "gt":
			want = vx.And(want, a > b)
		case "lte":
			want = vx.And(want, a <= b)
		case "gte":
			want = vx.And(want, a >= b)
		default:
			want = vx.And(want, a == b)
		}
	}
	got, isBool := root["asm"].(bool)
	vx.Observe("got", got)
	vx.Assert("result-as-documented", vx.And(isBool, got == want))
	vx.Cover("true", got)
	vx.Cover("false", !got)
}

// ---- eq / neq on containers ----

const numEqShapes = 8

// eqValue: small containers with nil members, different key sets and
// symbolic int leaves (read from $.src so that both literal and path
// arguments are exercised).
func eqValue(shape int, x, y int64) any {
	switch shape {
	case 0:
		return map[string]any{"a": nil, "b": x}
	case 1:
		return map[string]any{"b": x, "c": y}
	case 2:
		return map[string]any{"a": nil}
	case 3:
		return map[string]any{"b": x}
	case 4:
		return []any{nil, x}
	case 5:
		return []any{x, y}
	case 6:
		return map[string]any{"a": map[string]any{"b": nil, "c": x}}
	}
	return map[string]any{"a": map[string]any{"c": x, "d": y}}
}

// VerifC20_Equal: eq / neq on two containers (as values under $.src, given
// by path): true iff the two trees are equal - the same keys with equal
// values (a null member is not an absent member), the same elements in order.
func VerifC20_Equal() {
	neq := vx.Choose("fn", 2) == 1
	s0, s1 := vx.Choose("left", numEqShapes), vx.Choose("right", numEqShapes)
	x0, y0 := int64(vx.IntIn("x", 0, 3)), int64(vx.IntIn("y", 0, 3))
	x1, y1 := int64(vx.IntIn("x", 0, 3)), int64(vx.IntIn("y", 0, 3))
	v0, v1 := eqValue(s0, x0, y0), eqValue(s1, x1, y1)
	fn := "eq"
	if neq {
		fn = "neq"
	}
	vx.Key("fn", fn)
	vx.Key("left", s0)
	vx.Key("right", s1)
	p := NewPlan([]any{"set", "$.asm", []any{fn, "$.src.l", "$.src.r"}})
	root := map[string]any{"src": map[string]any{"l": v0, "r": v1}}
	var err error
	pan := vx.Catch(func() { err = p.Execute(root) })
	vx.Assert("no-panic:Execute", !pan)
	if pan {
		return
	}
	vx.Assert("no-error-for-documented-arguments", err == nil)
	if err != nil {
		return
	}
	want := vref.TreeEqual(v0, v1)
	if neq {
		want = !want
	}
	got, isBool := root["asm"].(bool)
	vx.Observe("got", got)
	vx.Assert("result-as-documented", vx.And(isBool, got == want))
	vx.Cover("true", got)
	vx.Cover("false", !got)
}
