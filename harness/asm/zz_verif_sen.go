package asm

import (
	"github.com/ohler55/ojg"
	"github.com/ohler55/ojg/internal/vref"
	"github.com/ohler55/ojg/internal/vx"
	"github.com/ohler55/ojg/sen"
)

// senCtx wraps s in one of four contexts: top-level, array element, object
// value, object key.
func senCtx(ctx int, s string) any {
	switch ctx {
	case 0:
		return s
	case 1:
		return []any{s, int64(1)}
	case 2:
		return map[string]any{"k": s}
	}
	return map[string]any{s: int64(1)}
}

var senCtxNames = [...]string{"top", "element", "value", "key"}

// sanitized applies the documented replacement of invalid UTF-8 by U+FFFD
// to every string and key of a tree.
func sanitized(v any) any {
	switch tv := v.(type) {
	case string:
		return sanitizeUTF8(tv)
	case []any:
		out := make([]any, len(tv))
		for i, e := range tv {
			out[i] = sanitized(e)
		}
		return out
	case map[string]any:
		out := map[string]any{}
		for k, e := range tv {
			out[sanitizeUTF8(k)] = sanitized(e)
		}
		return out
	}
	return v
}

// senRoundTrip writes v with the given writer options and parses the text
// back with the real SEN parser.
func senRoundTrip(v any, wr *sen.Writer) {
	var text string
	pan := vx.Catch(func() { text = wr.SEN(v) })
	vx.Assert("no-panic:write", !pan)
	if pan {
		return
	}
	vx.Observe("textlen", len(text))
	var back any
	var err error
	pan = vx.Catch(func() { back, err = (&sen.Parser{}).Parse([]byte(text)) })
	vx.Assert("no-panic:parse", !pan)
	if pan {
		return
	}
	vx.Observe("err", err != nil)
	if err != nil && senFirst >= 0 {
		vx.Key("s0", vx.Concrete(senFirst))
	}
	vx.Assert("written-text-parses", err == nil)
	if err != nil {
		return
	}
	same := vref.TreeEqual(sanitized(v), back)
	if !same && senFirst >= 0 {
		vx.Key("s0", vx.Concrete(senFirst))
	}
	vx.Assert("round-trip-equal", same)
}

// senFirst is the first byte of the string under test (for finding signatures), -1 if none.
var senFirst = -1

// VerifC10_String: every string of <= N bytes in four contexts (top-level,
// array element, object value, object key) through sen.Writer and back
// through sen.Parser: the same string comes back (invalid UTF-8 replaced
// by U+FFFD as documented).
// multi-byte templates ('?' = free byte): 2, 3 and 4 byte UTF-8 sequences
// with a free continuation byte, alone and between ASCII letters
var c10Templates = [...]string{"a\xE2\x80?b", "\xE2\x80?", "\xC2?", "\xEF\xBF?", "\xF0\x9F\x98?", "x\xE2?\xA9", "\xE2\x80\xA8?"}

func VerifC10_String() {
	ctx := vx.Choose("ctx", 4)
	nmax := vx.Param("N", 3)
	k := vx.Choose("len", nmax+1+len(c10Templates))
	html := vx.Choose("htmlunsafe", 2) == 1
	var s string
	n := k
	if k <= nmax {
		s = vx.String("s", k)
	} else {
		tmpl := c10Templates[k-nmax-1]
		b := make([]byte, len(tmpl))
		for i := 0; i < len(tmpl); i++ {
			if tmpl[i] == '?' {
				b[i] = vx.Byte("s")
			} else {
				b[i] = tmpl[i]
			}
		}
		s = string(b)
		n = 100 + k - nmax - 1 // template number in the signature
	}
	vx.Key("ctx", senCtxNames[ctx])
	vx.Key("len", n)
	wr := &sen.Writer{Options: ojg.Options{HTMLUnsafe: html}}
	senFirst = -1
	if len(s) > 0 {
		senFirst = int(s[0])
	}
	senRoundTrip(senCtx(ctx, s), wr)
	vx.Cover("done", true)
}

// VerifC10_Tree: the writer tree shapes of C04 (symbolic leaves) through
// sen.Writer with Sort / OmitNil / layout options and back through
// sen.Parser.
func VerifC10_Tree() {
	shape := vx.Choose("shape", numWShapes)
	o, desc := streamOptions()
	v := wTree(shape)
	vx.Key("shape", shape)
	vx.Key("opts", desc)
	if hasFloatLeaf(v) {
		vx.Assume(false) // floats are compared in the number harnesses
	}
	noLeadingSign(v) // known finding C10-leading-sign-bare is tracked by VerifC10_String
	wr := &sen.Writer{Options: *o}
	var text string
	pan := vx.Catch(func() { text = wr.SEN(v) })
	vx.Assert("no-panic:write", !pan)
	if pan {
		return
	}
	var back any
	var err error
	pan = vx.Catch(func() { back, err = (&sen.Parser{}).Parse([]byte(text)) })
	vx.Assert("no-panic:parse", !pan)
	if pan {
		return
	}
	vx.Assert("written-text-parses", err == nil)
	if err != nil {
		return
	}
	want := sanitized(v)
	if o.OmitNil {
		want = dropNil(want)
	}
	vx.Assert("round-trip-equal", vref.TreeEqual(want, back))
	vx.Cover("done", true)
}

func hasFloatLeaf(v any) bool {
	switch tv := v.(type) {
	case float64:
		return true
	case []any:
		for _, e := range tv {
			if hasFloatLeaf(e) {
				return true
			}
		}
	case map[string]any:
		for _, e := range tv {
			if hasFloatLeaf(e) {
				return true
			}
		}
	}
	return false
}

func dropNil(v any) any {
	switch tv := v.(type) {
	case []any:
		out := make([]any, len(tv))
		for i, e := range tv {
			out[i] = dropNil(e)
		}
		return out
	case map[string]any:
		out := map[string]any{}
		for k, e := range tv {
			if e != nil {
				out[k] = dropNil(e)
			}
		}
		return out
	}
	return v
}

// noLeadingSign assumes that no string or key of v starts with '-' or '+'.
func noLeadingSign(v any) {
	switch tv := v.(type) {
	case string:
		if len(tv) > 0 {
			vx.Assume(vx.And(tv[0] != '-', tv[0] != '+'))
		}
	case []any:
		for _, e := range tv {
			noLeadingSign(e)
		}
	case map[string]any:
		for k, e := range tv {
			noLeadingSign(k)
			noLeadingSign(e)
		}
	}
}
