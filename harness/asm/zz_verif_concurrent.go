package asm

import (
	"github.com/ohler55/ojg"
	"github.com/ohler55/ojg/alt"
	"github.com/ohler55/ojg/internal/vref"
	"github.com/ohler55/ojg/internal/vx"
	"github.com/ohler55/ojg/jp"
	"github.com/ohler55/ojg/oj"
	"github.com/ohler55/ojg/pretty"
	"github.com/ohler55/ojg/sen"
)

// sharesStorage: some container of a is the same object as some container of b.
func sharesStorage(a, b any) bool {
	shared := vx.Alias(a, b)
	switch tb := b.(type) {
	case []any:
		for _, e := range tb {
			shared = shared || sharesStorage(a, e)
		}
	case map[string]any:
		for _, e := range tb {
			shared = shared || sharesStorage(a, e)
		}
	}
	switch ta := a.(type) {
	case []any:
		for _, e := range ta {
			shared = shared || sharesStorage(e, b)
		}
	case map[string]any:
		for _, e := range ta {
			shared = shared || sharesStorage(e, b)
		}
	}
	return shared
}

var c08APIs = [...]string{"oj.Parse", "oj.Load", "sen.Parse", "oj.Marshal", "sen.Bytes", "oj.JSON", "sen.String", "pretty.JSON", "alt.Generify+Simplify", "alt.Decompose", "jp.Expr.Get(shared expr)", "jp.Expr.Set(shared expr)", "oj.Marshal(70 KiB)", "sen.Bytes(70 KiB)"}

// bigString: n bytes of text with one symbolic byte, so that a pooled
// writer's buffer grows far beyond its initial size.
func bigString(n int, fill byte) string {
	b := make([]byte, n)
	for i := range b {
		b[i] = fill
	}
	b[1] = vx.ByteIn("big", 'a', 'z')
	return string(b)
}

// VerifC08_Ownership: the sequential ownership lemma behind C08. Two
// consecutive calls of a package-level API on private data (the second
// call reuses whatever the first returned to a sync.Pool: the worst case
// for sharing): what the first call returned is not altered by the second,
// the two results share no storage with each other or with the inputs, and
// a shared jp.Expr is not modified by evaluating it. With sync.Pool's
// guarantee (an instance belongs to one goroutine between Get and Put) this
// is a sufficient condition for "a value returned to one caller is never
// written by another caller's call".
func VerifC08_Ownership() {
	api := vx.Choose("api", len(c08APIs))
	vx.Key("api", c08APIs[api])
	doc1 := []byte(`{"a":[1,"x",{"b":null}],"c":"y"}`)
	doc2 := []byte(`[{"k":[2,3]},"zz",4.5]`)
	// private symbolic content
	doc1[6] = vx.Digit("d", 1)
	doc2[7] = vx.Digit("d", 1)
	v1 := map[string]any{"a": []any{int64(vx.IntIn("v", -9, 9)), "x", map[string]any{"b": nil}}, "c": vx.String("s", 1)}
	v2 := []any{map[string]any{"k": []any{int64(2), int64(3)}}, vx.String("s", 1), int64(7)}
	shared := jp.MustParseString("$.a[*]")
	sharedText := shared.String()
	var r1, r2 any
	var b1, b2 []byte
	var keep1 any
	var keepB1 []byte
	large := false
	pan := vx.Catch(func() {
		switch api {
		case 0:
			r1, _ = oj.Parse(doc1)
			keep1 = vref.Copy(r1)
			r2, _ = oj.Parse(doc2)
		case 1:
			r1, _ = oj.Load(&chunkReader{data: doc1})
			keep1 = vref.Copy(r1)
			r2, _ = oj.Load(&chunkReader{data: doc2})
		case 2:
			r1, _ = sen.Parse(doc1)
			keep1 = vref.Copy(r1)
			r2, _ = sen.Parse(doc2)
		case 3:
			b1, _ = oj.Marshal(v1)
			keepB1 = append([]byte{}, b1...)
			b2, _ = oj.Marshal(v2)
		case 4:
			b1 = sen.Bytes(v1)
			keepB1 = append([]byte{}, b1...)
			b2 = sen.Bytes(v2)
		case 5:
			b1 = []byte(oj.JSON(v1))
			keepB1 = append([]byte{}, b1...)
			b2 = []byte(oj.JSON(v2))
		case 6:
			b1 = []byte(sen.String(v1))
			keepB1 = append([]byte{}, b1...)
			b2 = []byte(sen.String(v2))
		case 7:
			b1 = []byte(pretty.JSON(v1, 80.3))
			keepB1 = append([]byte{}, b1...)
			b2 = []byte(pretty.JSON(v2, 80.3))
		case 8:
			r1 = alt.Generify(v1, &ojg.Options{}).Simplify()
			keep1 = vref.Copy(r1)
			r2 = alt.Generify(v2, &ojg.Options{}).Simplify()
		case 9:
			r1 = alt.Decompose(v1, &ojg.Options{})
			keep1 = vref.Copy(r1)
			r2 = alt.Decompose(v2, &ojg.Options{})
		case 12:
			b1, _ = oj.Marshal(bigString(70000, 'p'))
			keepB1 = append([]byte{}, b1[:8]...)
			b2, _ = oj.Marshal(bigString(70001, 'q'))
			large = true
		case 13:
			b1 = sen.Bytes(bigString(70000, 'p'))
			keepB1 = append([]byte{}, b1[:8]...)
			b2 = sen.Bytes(bigString(70001, 'q'))
			large = true
		case 10:
			r1 = shared.Get(v1)
			keep1 = vref.Copy(r1)
			r2 = shared.Get(map[string]any{"a": v2})
		default:
			_ = shared.Set(v1, int64(0))
			r1 = vref.Copy(v1)
			keep1 = vref.Copy(r1)
			_ = shared.Set(map[string]any{"a": v2}, int64(0))
			r2 = v2
		}
	})
	vx.Assert("no-panic", !pan)
	if pan {
		return
	}
	if large {
		vx.Assert("earlier-buffer-not-overwritten", len(b1) >= 70000 && vx.BytesEq(b1[:8], keepB1))
		vx.Assert("results-share-no-storage", !vx.Alias(b1, b2))
	} else if b1 != nil || b2 != nil {
		vx.Observe("b1len", len(keepB1)) // the text depends on map iteration order
		vx.Assert("earlier-buffer-not-overwritten", len(b1) == len(keepB1) && vx.BytesEq(b1, keepB1))
		vx.Assert("results-share-no-storage", !vx.Alias(b1, b2))
	} else {
		vx.Assert("earlier-result-not-altered", vref.TreeEqual(keep1, r1))
		vx.Assert("results-share-no-storage", !sharesStorage(r1, r2))
		if api == 8 || api == 9 {
			vx.Assert("result-shares-nothing-with-input", vx.And(!sharesStorage(r1, v1), !sharesStorage(r2, v2)))
		}
	}
	vx.Assert("shared-expression-not-modified", shared.String() == sharedText)
	vx.Cover("done", true)
}
