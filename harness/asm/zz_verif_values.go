package asm

import (
	"encoding/json"
	"strconv"

	"github.com/ohler55/ojg/gen"
	"github.com/ohler55/ojg/internal/vref"
	"github.com/ohler55/ojg/internal/vx"
	"github.com/ohler55/ojg/oj"
	"github.com/ohler55/ojg/sen"
)

// ---- number literals with symbolic digits ----

func symDigits(tag string, n int, firstNonZero bool) string {
	b := make([]byte, n)
	for i := range b {
		lo := 0
		if i == 0 && firstNonZero {
			lo = 1
		}
		b[i] = vx.Digit(tag, lo)
	}
	return string(b)
}

var intLens = [...]int{1, 2, 17, 18, 19, 20, 21}
var fracLens = [...]int{0, 1, 2, 17, 18, 19, 20}
var specialShapes = [...][2]int{{1, 19}, {19, 18}}
var expForms = [...]string{"", "e1", "E+12", "e-3", "e0007"}

// numberLiteral builds -?I(.F)?(e[+-]?X)? with all digits of I and F symbolic.
// With F19 set (quick tier) one extra shape is added to the K2 menu: a 19
// digit fraction (the FillBig threshold) in the simplest surroundings only.
func numberLiteral() (lit string, desc string, special bool) {
	neg := vx.Choose("neg", 2) == 1
	i1 := vx.Choose("k1", vx.Param("K1", len(intLens)))
	k1 := intLens[i1]
	nk2 := vx.Param("K2", len(fracLens))
	i2 := vx.Choose("k2", nk2+vx.Param("F19", 0))
	k2 := 0
	if i2 < nk2 {
		k2 = fracLens[i2]
	} else {
		// extra shapes of the quick tier: (1 digit).(19 digits) and
		// (19 digits).(18 digits), each in the simplest surroundings only
		special = true
		sp := specialShapes[i2-nk2]
		if i1 != 0 {
			vx.Assume(false)
		}
		k1, k2 = sp[0], sp[1]
	}
	ex := expForms[vx.Choose("exp", vx.Param("EXP", len(expForms)))]
	if special && (neg || ex != "") {
		vx.Assume(false)
	}
	if neg {
		lit = "-"
	}
	if k1 == 1 && vx.Choose("zero", 2) == 1 {
		lit += "0"
	} else {
		lit += symDigits("i", k1, true)
	}
	if k2 > 0 {
		lit += "." + symDigits("f", k2, false)
	}
	lit += ex
	desc = strconv.Itoa(k1) + "." + strconv.Itoa(k2) + ex
	if neg {
		desc = "-" + desc
	}
	return
}

// denotes: the parsed value v denotes the literal.
func denotes(v any, lit string) (ok bool, kind string) {
	plainInt := true
	for i := 0; i < len(lit); i++ {
		if lit[i] == '.' || lit[i] == 'e' || lit[i] == 'E' {
			plainInt = false
		}
	}
	switch tv := v.(type) {
	case int64:
		// exact: its canonical decimal is the literal (JSON integers are canonical, -0 aside)
		txt := strconv.FormatInt(tv, 10)
		return vref.SameNumber(txt, lit), "int64"
	case float64:
		txt, known := vx.FloatText(tv)
		if !known {
			return false, "float64(unknown origin)"
		}
		if !vx.Symbolic() {
			// natively: nearest float64 of the literal (what strconv gives for it)
			f, err := strconv.ParseFloat(lit, 64)
			return err == nil && (f == tv || (f != f && tv != tv)), "float64"
		}
		return vref.SameNumber(txt, lit), "float64"
	case json.Number:
		return vref.SameNumber(string(tv), lit), "json.Number"
	case gen.Big:
		return vref.SameNumber(string(tv), lit), "gen.Big"
	case string:
		_ = plainInt
		return vref.SameNumber(tv, lit), "string"
	}
	return false, "other"
}

// tokNum collects the number callbacks of the tokenizer.
type tokNum struct {
	oj.ZeroHandler
	vals []any
}

func (h *tokNum) Int(v int64)     { h.vals = append(h.vals, v) }
func (h *tokNum) Float(v float64) { h.vals = append(h.vals, v) }
func (h *tokNum) Number(v string) { h.vals = append(h.vals, json.Number(v)) }

// VerifC02_Numbers: a number literal of every shape (digit counts at and
// around the accumulator thresholds, fraction, exponent forms), all digits
// symbolic, standalone / in an array / as an object value, through
// oj.Parse, ParseReader (1-byte reads), the tokenizer and sen.Parse: the
// value denotes the literal; a plain integer that fits int64 comes back as
// int64.
func VerifC02_Numbers() {
	fe := vx.Choose("fe", vx.Param("FE", 5))
	ctx := vx.Choose("ctx", vx.Param("CTX", 3))
	lit, desc, special := numberLiteral()
	if special && ctx != 0 {
		vx.Assume(false)
	}
	vx.Key("fe", []string{"oj.Parse", "oj.ParseReader(1-byte)", "oj.Tokenize", "sen.Parse", "oj.TokenizeLoad(1-byte)"}[fe])
	vx.Key("ctx", ctx)
	vx.Key("shape", desc)
	var doc string
	switch ctx {
	case 0:
		doc = lit
	case 1:
		doc = "[" + lit + "]"
	default:
		doc = "{\"k\":" + lit + "}"
	}
	var v any
	var err error
	pan := vx.Catch(func() {
		switch fe {
		case 0:
			v, err = (&oj.Parser{}).Parse([]byte(doc))
		case 1:
			v, err = (&oj.Parser{}).ParseReader(&chunkReader{data: []byte(doc), chunks: chunking(len(doc), len(doc))})
		case 2:
			h := &tokNum{}
			t := &oj.Tokenizer{}
			err = t.Parse([]byte(doc), h)
			if len(h.vals) == 1 {
				v = h.vals[0]
			}
		case 3:
			v, err = (&sen.Parser{}).Parse([]byte(doc))
		default:
			h := &tokNum{}
			t := &oj.Tokenizer{}
			err = t.Load(&chunkReader{data: []byte(doc), chunks: chunking(len(doc), len(doc))}, h)
			if len(h.vals) == 1 {
				v = h.vals[0]
			}
		}
	})
	vx.Assert("no-panic", !pan)
	if pan {
		return
	}
	vx.Assert("valid-literal-accepted", err == nil)
	if err != nil {
		return
	}
	if fe != 2 && fe != 4 {
		switch ctx {
		case 1:
			a, _ := v.([]any)
			if len(a) != 1 {
				vx.Fail("structure")
				return
			}
			v = a[0]
		case 2:
			m, _ := v.(map[string]any)
			if len(m) != 1 {
				vx.Fail("structure")
				return
			}
			v = m["k"]
		}
	}
	ok, kind := denotes(v, lit)
	vx.Key("kind", kind)
	vx.Assert("value-denotes-literal", ok)
	// "always an int64 for a plain integer literal whose magnitude fits int64"
	plain := true
	for i := 0; i < len(lit); i++ {
		if lit[i] == '.' || lit[i] == 'e' || lit[i] == 'E' {
			plain = false
		}
	}
	if plain {
		digits := lit
		if lit[0] == '-' {
			digits = lit[1:]
		}
		// (19-digit literals starting with 9 are left out: deciding "fits" needs
		// a 19-digit symbolic comparison that does not finish, and the values
		// 9223372036854775800..807 are pinned as json.Number by existing tests)
		if len(digits) < 19 || (len(digits) == 19 && digits[0] <= '8') {
			vx.Assert("plain-integer-is-int64", kind == "int64")
		}
	}
	vx.Cover("int64", kind == "int64")
	vx.Cover("float64", kind == "float64")
	vx.Cover("big", kind == "json.Number")
}

// ---- strings and escapes ----

var strTemplates = [...]string{`"?"`, `"??"`, `"\?"`, `"\u????"`, `"a\u00??b"`, `"\uD83D\uDE0?"`, `"\u????\u????"`, `"?\n?"`}

// VerifC02_Strings: string literals with symbolic content (free bytes,
// every escape, \\uXXXX with symbolic hex digits, a surrogate pair) as a
// value and as an object key, through oj.Parse, the tokenizer, gen.Parser
// and sen.Parse, against the reference decoder.
func VerifC02_Strings() {
	fe := vx.Choose("fe", 4)
	tmpl := strTemplates[vx.Choose("template", vx.Param("TEMPLATES", len(strTemplates)))]
	asKey := vx.Choose("key", 2) == 1
	vx.Key("fe", []string{"oj.Parse", "oj.Tokenize", "gen.Parse", "sen.Parse"}[fe])
	vx.Key("template", tmpl)
	vx.Key("key", asKey)
	lit := make([]byte, len(tmpl))
	for i := 0; i < len(tmpl); i++ {
		if tmpl[i] == '?' {
			lit[i] = vx.Byte("c")
		} else {
			lit[i] = tmpl[i]
		}
	}
	want, valid := vref.DecodeString(lit)
	if !valid {
		vx.Assume(false) // only valid literals (acceptance is C01's business)
	}
	var doc []byte
	if asKey {
		doc = append(append([]byte("{"), lit...), []byte(":1}")...)
	} else {
		doc = append(append([]byte("["), lit...), ']')
	}
	var got string
	var have bool
	var err error
	pan := vx.Catch(func() {
		var v any
		switch fe {
		case 0:
			v, err = (&oj.Parser{}).Parse(append([]byte{}, doc...))
		case 1:
			h := &builder{}
			t := &oj.Tokenizer{}
			err = t.Parse(append([]byte{}, doc...), h)
			v = h.result()
		case 2:
			var n gen.Node
			n, err = (&gen.Parser{}).Parse(append([]byte{}, doc...))
			v = simplify(n)
		default:
			v, err = (&sen.Parser{}).Parse(append([]byte{}, doc...))
		}
		if asKey {
			if m, ok := v.(map[string]any); ok && len(m) == 1 {
				for k := range m {
					got, have = k, true
				}
			}
		} else if a, ok := v.([]any); ok && len(a) == 1 {
			got, have = a[0].(string)
		}
	})
	vx.Assert("no-panic", !pan)
	if pan {
		return
	}
	vx.Assert("valid-literal-accepted", err == nil)
	if err != nil {
		return
	}
	vx.Assert("structure", have)
	if !have {
		return
	}
	vx.Observe("got", got)
	vx.Assert("string-decodes-as-rfc8259", len(got) == len(want) && vx.StrEq(got, want))
	vx.Cover("done", true)
}

var str2Templates = [...]string{`"?"`, `"\?"`, `"?\n?"`, `"\u00??"`}

// VerifC02_StringsChunked: a document with two strings - the first went
// through the escape (slow) path, the second is a template with symbolic
// content - read through the reader front-ends with one split at every
// position (so that every byte of the second literal, its opening quote
// included, is once the last byte of a read): the second string, as array
// element or as member name, decodes as the reference says.
func VerifC02_StringsChunked() {
	fe := vx.Choose("fe", 4)
	tmpl := str2Templates[vx.Choose("template", len(str2Templates))]
	asKey := vx.Choose("key", 2) == 1
	vx.Key("fe", []string{"oj.ParseReader", "oj.TokenizeLoad", "gen.ParseReader", "sen.ParseReader"}[fe])
	vx.Key("template", tmpl)
	vx.Key("key", asKey)
	lit := make([]byte, len(tmpl))
	for i := 0; i < len(tmpl); i++ {
		if tmpl[i] == '?' {
			lit[i] = vx.Byte("c")
		} else {
			lit[i] = tmpl[i]
		}
	}
	want, valid := vref.DecodeString(lit)
	if !valid {
		vx.Assume(false)
	}
	var doc []byte
	if asKey {
		doc = append(append([]byte(`{"k\t1":0,`), lit...), []byte(":1}")...)
	} else {
		doc = append(append([]byte(`["a\tb",`), lit...), ']')
	}
	split := vx.Concrete(vx.IntIn("split", 1, len(doc)-1))
	vx.Key("split", split)
	rd := &chunkReader{data: append([]byte{}, doc...), chunks: []int{split}}
	var got string
	var have bool
	var err error
	pan := vx.Catch(func() {
		var v any
		switch fe {
		case 0:
			v, err = (&oj.Parser{}).ParseReader(rd)
		case 1:
			h := &builder{}
			err = (&oj.Tokenizer{}).Load(rd, h)
			v = h.result()
		case 2:
			var n gen.Node
			n, err = (&gen.Parser{}).ParseReader(rd)
			v = simplify(n)
		default:
			v, err = (&sen.Parser{}).ParseReader(rd)
		}
		if asKey {
			if m, ok := v.(map[string]any); ok && len(m) == 2 {
				for k := range m {
					if k != "k\t1" {
						got, have = k, true
					}
				}
			}
		} else if a, ok := v.([]any); ok && len(a) == 2 {
			got, have = a[1].(string)
		}
	})
	vx.Assert("no-panic", !pan)
	if pan {
		return
	}
	vx.Assert("valid-literal-accepted", err == nil)
	if err != nil {
		return
	}
	vx.Assert("structure", have)
	if !have {
		return
	}
	vx.Observe("got", got)
	vx.Assert("string-decodes-as-rfc8259", len(got) == len(want) && vx.StrEq(got, want))
	vx.Cover("done", true)
}
