package alt

import (
	"github.com/ohler55/ojg/internal/vref"
	"github.com/ohler55/ojg/internal/vx"
)

// leaf returns a leaf of a chosen kind with a small symbolic value, so that
// equality between leaves of the two trees is decided by the solver.
// leafSeen counts the leaves made per tree tag: only the first leaf of a tree
// may also be a uint64 (small, or beyond the int64 range), which keeps the
// number of kind combinations down.
var leafSeen = map[string]int{}

// leafIntOnly: the two-row shape has eight leaves; they are all int64.
var leafIntOnly bool

func diffLeaf(tag string) any {
	v := vx.IntIn(tag, -2, 1)
	if leafIntOnly {
		return int64(v)
	}
	kinds := vx.Param("LEAFKINDS", 4)
	extra := 0
	if leafSeen[tag] == 0 && vx.Param("UINT", 1) == 1 {
		extra = 1
	}
	leafSeen[tag]++
	k := vx.Choose(tag+"-kind", kinds+extra)
	if k >= kinds {
		// uint64: small (equal to the ints of the same value) or beyond int64
		if vx.Choose(tag+"-big", 2) == 0 {
			return uint64(1) << 63
		}
		return uint64(v + 2)
	}
	switch k {
	case 0:
		return int64(v)
	case 1:
		return float64(v) // integral float: equal to the int of the same value
	case 2:
		return nil
	case 3:
		return v // Go int: another numeric width
	case 4:
		// a non-integral float (concrete: symbolic float arithmetic is outside the claim)
		if vx.Choose(tag+"-half", 2) == 0 {
			return 0.5
		}
		return -1.5
	}
	return string([]byte{'a' + byte(v+2)})
}

func hasBigUint(v any) bool {
	switch tv := v.(type) {
	case uint64:
		return tv >= 1<<63
	case []any:
		for _, e := range tv {
			if hasBigUint(e) {
				return true
			}
		}
	case map[string]any:
		for _, e := range tv {
			if hasBigUint(e) {
				return true
			}
		}
	}
	return false
}

// symKey is "a" or "b", decided by the solver.
func symKey(tag string) string {
	b := vx.Byte(tag)
	vx.Assume(vx.Or(b == 'a', b == 'b'))
	return string([]byte{b})
}

const numDiffShapes = 9

func diffTree(tag string, shape int) any {
	switch shape {
	case 0:
		return diffLeaf(tag)
	case 1:
		return []any{diffLeaf(tag), diffLeaf(tag)}
	case 2:
		return []any{diffLeaf(tag)}
	case 3:
		return map[string]any{symKey(tag + "k"): diffLeaf(tag), "c": diffLeaf(tag)}
	case 4:
		return map[string]any{"a": []any{diffLeaf(tag), diffLeaf(tag)}, "b": diffLeaf(tag)}
	case 5:
		return []any{map[string]any{"a": diffLeaf(tag)}, diffLeaf(tag)}
	case 7:
		return map[string]any{"c": diffLeaf(tag)}
	case 8:
		return map[string]any{}
	case 9:
		// two rows: for ignore paths that name different members at different indexes
		return []any{map[string]any{"a": diffLeaf(tag), "b": diffLeaf(tag)}, map[string]any{"a": diffLeaf(tag), "b": diffLeaf(tag)}}
	}
	return []any{diffLeaf(tag), diffLeaf(tag), diffLeaf(tag)}
}

// shape pairs: the same shape on both sides plus a few mismatched pairs
var diffPairs = [...][2]int{{0, 0}, {1, 1}, {2, 2}, {3, 3}, {4, 4}, {5, 5}, {6, 6}, {1, 2}, {2, 1}, {1, 6}, {6, 1}, {0, 2}, {3, 1}, {5, 1}, {6, 2}, {2, 6}, {3, 7}, {7, 3}, {7, 7}, {7, 8}, {8, 7}, {8, 8}, {9, 9}}

func pathOf(p Path) []any { return []any(p) }

// ignore path menus (nil = wildcard)
func ignoreMenu(i int) Path {
	switch i {
	case 0:
		return Path{0}
	case 1:
		return Path{1}
	case 2:
		return Path{nil}
	case 3:
		return Path{"a"}
	case 4:
		return Path{"a", 1}
	case 5:
		return Path{0, "a"}
	case 6:
		return Path{nil, "a"}
	case 7:
		return Path{"b"}
	case 9:
		return Path{1, "b"}
	case 10:
		return Path{0, "b"}
	case 11:
		return Path{1, "a"}
	}
	return Path{2}
}

const numIgnoreMenu = 9

// rowIgnores: the menu entries used (in pairs) with the two-row shape
var rowIgnores = [...]int{5, 9, 10, 11, 6}

func covered(ignores []Path, leaf []any) bool {
	for _, ig := range ignores {
		if vref.Covers(pathOf(ig), leaf) {
			return true
		}
	}
	return false
}

// differsAt: the two trees differ at path p (values unequal, or the path
// exists in only one of them).
func differsAt(a, b any, p []any) bool {
	va, oka := vref.At(a, p)
	vb, okb := vref.At(b, p)
	if oka != okb {
		return true
	}
	if !oka {
		return false
	}
	return !vref.DiffEqual(va, vb)
}

// underSome: leaf path l lies under (or at) one of the reported paths. A
// reported index at or beyond the shorter array's length marks the length
// difference and covers every later index of that array as well.
func underSome(diffs []Path, l []any, a, b any) bool {
	for _, d := range diffs {
		dp := pathOf(d)
		if len(dp) == 1 && dp[0] == nil {
			return true // the roots differ
		}
		if vref.Covers(dp, l) {
			return true
		}
		if vref.Covers(l, dp) {
			return true // l is an empty container and the difference is reported below it
		}
		if len(dp) <= len(l) && len(dp) > 0 {
			if di, ok := dp[len(dp)-1].(int); ok && vref.SamePath(dp[:len(dp)-1], l[:len(dp)-1]) {
				if li, ok2 := l[len(dp)-1].(int); ok2 && li >= di {
					pa, _ := vref.At(a, dp[:len(dp)-1])
					pb, _ := vref.At(b, dp[:len(dp)-1])
					aa, _ := pa.([]any)
					ab, _ := pb.([]any)
					if di >= len(aa) || di >= len(ab) {
						return true
					}
				}
			}
		}
	}
	return false
}

func bothContainers(a, b any, p []any) bool {
	va, oka := vref.At(a, p)
	vb, okb := vref.At(b, p)
	if !oka || !okb {
		return false
	}
	_, ma := va.(map[string]any)
	_, mb := vb.(map[string]any)
	_, aa := va.([]any)
	_, ab := vb.([]any)
	return (ma && mb) || (aa && ab)
}

// VerifC19_Diff: Diff / Compare on pairs of trees with symbolic leaves and
// 0..2 ignore paths: empty iff equal; every reported path is a genuine,
// un-ignored difference; every differing leaf lies under a reported path
// or an ignore path; Compare agrees with Diff.
func VerifC19_Diff() {
	leafSeen = map[string]int{}
	pair := diffPairs[vx.Choose("shapes", len(diffPairs))]
	nign := vx.Choose("nign", vx.Param("MAXIGN", 2)+1)
	rows := pair[0] == 9
	leafIntOnly = rows
	if rows {
		nign = 2 // the two-row shape always gets two ignore paths, from its own menu
	}
	var ignores []Path
	ign := ""
	for i := 0; i < nign; i++ {
		m := 0
		if rows {
			m = rowIgnores[vx.Choose("rowign", len(rowIgnores))]
		} else {
			m = vx.Choose("ign", numIgnoreMenu)
		}
		ignores = append(ignores, ignoreMenu(m))
		ign += string([]byte{'0' + byte(m)})
	}
	a := diffTree("a", pair[0])
	b := diffTree("b", pair[1])
	vx.Key("shapes", pair[0]*10+pair[1])
	vx.Key("ign", ign)
	var diffs []Path
	var cmp Path
	pan := vx.Catch(func() {
		diffs = Diff(a, b, ignores...)
		cmp = Compare(a, b, ignores...)
	})
	vx.Assert("no-panic", !pan)
	if pan {
		return
	}
	vx.Observe("ndiffs", len(diffs))
	if nign == 0 {
		vx.Assert("empty-iff-equal", (len(diffs) == 0) == vref.DiffEqual(a, b))
	}
	// soundness: each reported path is a real difference that no ignore path covers
	sound := true
	for _, d := range diffs {
		dp := pathOf(d)
		if len(dp) == 1 && dp[0] == nil {
			sound = sound && !vref.DiffEqual(a, b)
			continue
		}
		if !differsAt(a, b, dp) || covered(ignores, dp) {
			sound = false
		}
	}
	vx.Assert("reported-paths-are-differences", sound)
	// completeness: each differing leaf (of either tree) is under a reported or ignored path
	var leaves [][]any
	vref.Leaves(a, nil, &leaves)
	vref.Leaves(b, nil, &leaves)
	complete := true
	for _, l := range leaves {
		if bothContainers(a, b, l) {
			continue // an empty container against a container: the members are the leaves
		}
		if differsAt(a, b, l) && !covered(ignores, l) && !underSome(diffs, l, a, b) {
			complete = false
		}
	}
	vx.Assert("differences-are-reported", complete)
	// Compare
	vx.Assert("compare-nil-iff-diff-empty", (cmp == nil) == (len(diffs) == 0))
	if cmp != nil {
		in := false
		for _, d := range diffs {
			if vref.SamePath(pathOf(d), pathOf(cmp)) {
				in = true
			}
		}
		vx.Assert("compare-in-diff", in)
	}
	// the same trees held as gen nodes
	if vx.Param("GEN", 1) == 1 && !hasBigUint(a) && !hasBigUint(b) { // (gen.Int cannot hold a uint64 beyond int64)
		ga, gb := Generify(a), Generify(b)
		var gd []Path
		var gcmp Path
		pan := vx.Catch(func() {
			gd = Diff(ga, gb, ignores...)
			gcmp = Compare(ga, gb, ignores...)
		})
		vx.Assert("no-panic:gen", !pan)
		if !pan {
			same := len(gd) == len(diffs)
			for _, d := range gd {
				in := false
				for _, e := range diffs {
					if vref.SamePath(pathOf(d), pathOf(e)) {
						in = true
					}
				}
				same = same && in
			}
			vx.Assert("gen-diff-equals-simple-diff", same)
			vx.Assert("gen-compare-nil-iff-diff-empty", (gcmp == nil) == (len(gd) == 0))
		}
	}
	vx.Cover("equal", len(diffs) == 0)
	vx.Cover("different", len(diffs) > 0)
}

// VerifC19_Match: Match(f, t) against the reference.
func VerifC19_Match() {
	leafSeen = map[string]int{}
	pair := diffPairs[vx.Choose("shapes", len(diffPairs))]
	f := diffTree("a", pair[0])
	t := diffTree("b", pair[1])
	vx.Key("shapes", pair[0]*10+pair[1])
	var m bool
	pan := vx.Catch(func() { m = Match(f, t) })
	vx.Assert("no-panic", !pan)
	if pan {
		return
	}
	vx.Observe("m", m)
	vx.Assert("match-equals-reference", m == vref.RefMatch(f, t))
	vx.Cover("match", m)
	vx.Cover("nomatch", !m)
}
