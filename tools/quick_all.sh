#!/bin/bash
# runs every quick tier sequentially from /verif against /repo; prints exit codes
cd /verif
for p in ${@:-C01 C02 C03 C04 C05 C06 C07 C08 C09 C10 C11 C12 C13 C14 C17 C18 C19 C20}; do
  s=$(date +%s)
  timeout 900 ./bin/vcheck -p $p -tier quick > /tmp/quick-$p.log 2>&1
  rc=$?
  echo "$p exit=$rc $(( $(date +%s) - s ))s $(grep -c '^KNOWN-FINDING' /tmp/quick-$p.log) known; $(grep -m1 'INCONCLUSIVE\|VIOLATION' /tmp/quick-$p.log | cut -c1-200)"
done
