#!/bin/bash
# runs every thorough tier sequentially from /verif against /repo; prints exit codes and times
cd /verif
for p in ${@:-C18 C08 C17 C06 C12 C20 C07 C09 C01 C14 C10 C13 C05 C11 C03 C04 C19 C02}; do
  s=$(date +%s)
  timeout ${CAP:-3000} ./bin/vcheck -p $p -tier thorough ${J:+-j $J} > /tmp/thorough-$p.log 2>&1
  rc=$?
  echo "$p exit=$rc $(( $(date +%s) - s ))s $(grep -c '^KNOWN-FINDING' /tmp/thorough-$p.log) known; $(grep -m2 'INCONCLUSIVE\|VIOLATION' /tmp/thorough-$p.log | cut -c1-220 | tr '\n' ' ')"
done
