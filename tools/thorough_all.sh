#!/bin/bash
# runs every thorough tier sequentially (background use: vp run -- tools/thorough_all.sh)
export GOFLAGS=-mod=mod GOPROXY=off GOSUMDB=off GOTOOLCHAIN=local
cd engine && go build -o /tmp/vcheck-thorough ./cmd/vcheck && cd ..
for p in ${@:-C17 C18 C19 C12 C08 C07 C20 C10 C14 C13 C05 C11 C03 C04 C06 C09 C01 C02}; do
  /usr/bin/time -f "$p wall=%es" timeout 2400 /tmp/vcheck-thorough -p $p -tier thorough -verif $PWD -j ${J:-8} -summary 2>&1 | grep -v "^\[" | tail -25 | cut -c1-300
  echo "== $p exit=${PIPESTATUS[0]}"
done
