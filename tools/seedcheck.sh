#!/bin/bash
# usage: seedcheck.sh <seed-dir> <property> [tier]
# 1. confirms the seeded change in a scratch worktree (applies, builds, suite passes, demo fails with / passes without)
# 2. applies it to /repo, runs the property's check, reverts /repo.
set -u
export GOFLAGS=-mod=mod GOPROXY=off GOSUMDB=off GOTOOLCHAIN=local
SD=$1; PROP=$2; TIER=${3:-quick}
NAME=$(basename $SD)
WT=/tmp/sc-$NAME
git -C /repo worktree remove --force $WT >/dev/null 2>&1
git -C /repo worktree add -q $WT HEAD || exit 3
cd $WT
if ! git apply $SD/patch.diff 2>/dev/null && ! git apply -C1 $SD/patch.diff; then echo "SEED $NAME: patch does not apply"; git -C /repo worktree remove --force $WT; exit 3; fi
PLACE=$(head -1 $SD/demo_test.go | sed -n 's#.*place in: *\([a-z/.]*\).*#\1#p'); PLACE=${PLACE:-.}
cp $SD/demo_test.go $WT/$PLACE/zz_seed_demo_test.go
BUILD=$(go build ./... 2>&1 | tail -3)
SUITE=$(go test -vet=off -count=1 ./... 2>&1 | grep -v "^ok\|no test files" | grep -v zz_seed | head -5)
DEMO_WITH=$(go test -vet=off -count=1 -run 'Demo|Seed' ./$PLACE 2>&1 | tail -1)
rm $WT/$PLACE/zz_seed_demo_test.go
SUITE2=$(go test -vet=off -count=1 ./... 2>&1 | grep -v "^ok\|no test files" | head -5)
git checkout -q -- .
cp $SD/demo_test.go $WT/$PLACE/zz_seed_demo_test.go
DEMO_WITHOUT=$(go test -vet=off -count=1 -run 'Demo|Seed' ./$PLACE 2>&1 | tail -1)
cd /
git -C /repo worktree remove --force $WT
echo "SEED $NAME: build=[$BUILD] suite-with-patch=[$SUITE2] demo-with=[$DEMO_WITH] demo-without=[$DEMO_WITHOUT]"
# run the check against the seeded tree
(git -C /repo apply $SD/patch.diff 2>/dev/null || git -C /repo apply -C1 $SD/patch.diff) || { echo "cannot apply to /repo"; exit 3; }
/verif/bin/vcheck -p $PROP -tier $TIER -verif /verif > /tmp/seedrun-$NAME.log 2>&1
RC=$?
git -C /repo checkout -- .
echo "SEED $NAME: check $PROP $TIER exit=$RC"
grep -m3 "^VIOLATION\|^  signature" /tmp/seedrun-$NAME.log | cut -c1-300
grep -m3 "INCONCLUSIVE" /tmp/seedrun-$NAME.log | cut -c1-300
