#!/bin/bash
# usage: seedcheck_wt.sh <seed-dir> <property> [tier]
# Like seedcheck.sh but never touches /repo: the patch is applied in a scratch
# worktree and the check runs with -repo <worktree> and a scratch copy of
# /verif's harness (so that /verif/evidence is not overwritten). Used while a
# long run against /repo is in progress.
set -u
export GOFLAGS=-mod=mod GOPROXY=off GOSUMDB=off GOTOOLCHAIN=local
SD=$1; PROP=$2; TIER=${3:-quick}
NAME=$(basename $SD)
WT=/tmp/scw-$NAME; VD=/tmp/scv-$NAME
git -C /repo worktree remove --force $WT >/dev/null 2>&1
git -C /repo worktree add -q $WT HEAD || exit 3
cd $WT
if ! git apply $SD/patch.diff 2>/dev/null && ! git apply -C1 $SD/patch.diff; then echo "SEED $NAME: patch does not apply"; git -C /repo worktree remove --force $WT; exit 3; fi
PLACE=$(head -1 $SD/demo_test.go | sed -n 's#.*place in: *\([a-z/.]*\).*#\1#p'); PLACE=${PLACE:-.}
BUILD=$(go build ./... 2>&1 | tail -3)
SUITE2=$(go test -vet=off -count=1 ./... 2>&1 | grep -v "^ok\|no test files" | head -5)
cp $SD/demo_test.go $WT/$PLACE/zz_seed_demo_test.go
DEMO_WITH=$(go test -vet=off -count=1 -run 'Demo|Seed' ./$PLACE 2>&1 | tail -1)
rm $WT/$PLACE/zz_seed_demo_test.go
git diff > /tmp/scw-$NAME.diff
git checkout -q -- .
cp $SD/demo_test.go $WT/$PLACE/zz_seed_demo_test.go
DEMO_WITHOUT=$(go test -vet=off -count=1 -run 'Demo|Seed' ./$PLACE 2>&1 | tail -1)
rm $WT/$PLACE/zz_seed_demo_test.go
git apply /tmp/scw-$NAME.diff
echo "SEED $NAME: build=[$BUILD] suite-with-patch=[$SUITE2] demo-with=[$DEMO_WITH] demo-without=[$DEMO_WITHOUT]"
rm -rf $VD; mkdir -p $VD; cp -r /verif/harness $VD/; cp /verif/known_findings.json $VD/
cd /
/verif/bin/vcheck -p $PROP -tier $TIER -repo $WT -verif $VD ${J:+-j $J} > /tmp/seedrun-$NAME.log 2>&1
RC=$?
git -C /repo worktree remove --force $WT
rm -rf $VD /tmp/scw-$NAME.diff
echo "SEED $NAME: check $PROP $TIER exit=$RC"
grep -m3 "^VIOLATION\|^  signature" /tmp/seedrun-$NAME.log | cut -c1-300
grep -m3 "INCONCLUSIVE" /tmp/seedrun-$NAME.log | cut -c1-300
