#!/usr/bin/env python3
"""Regenerates /verif/MANIFEST.json from the table below (kept valid at all times)."""
import json

CLAIMED = {
 "C01": ("DESIGN.md §5 C01", "every byte string up to N bytes, and 30 JSON skeletons of 7..27 bytes with free symbolic bytes (whole and chunked; six with numbers of 20+ digits), through all strict front-ends vs an RFC 8259 reference recogniser executed symbolically on the same bytes; and one inductive step of the real per-buffer function of oj.Validator, oj.Tokenizer, oj.Parser and gen.Parser from the canonical state of every reference-automaton configuration (container stacks to depth L+1 = or deeper) on every chunk of <= L symbolic bytes: error iff the reference rejects, canonical post-state, end-of-input verdict - by induction, streamed inputs of any length and depth in reads of <= L bytes"),
 "C02": ("DESIGN.md §5 C02", "number literals with every digit symbolic at and around the accumulator thresholds (int64 exact, float64 = ParseFloat of a text with the same decimal denotation, json.Number same denotation) a plain integer of <= 18 digits (or 19 starting with 1-8) is an int64, and string literals with symbolic content / escapes vs a reference decoder, through the parsers and the tokenizer, also as the second string of a streamed document split at every position"),
 "C03": ("DESIGN.md §5 C03", "differential: oj.Parse vs reader variants behind a chunking reader (every split point followed by a zero-length Read / every composition), tokenizer+Builder, gen.Parser+Simplify, validator, sen.Parser on valid JSON; JSON skeletons with free bytes; the SEN family (Parse, ParseReader, Tokenizer, Tokenizer.Load) among themselves; multi-document mode (callbacks, channels, tokenizers) for the sequence of documents delivered"),
 "C04": ("DESIGN.md §5 C04", "AppendJSONString on every string up to N bytes and oj.Writer on tree shapes with symbolic leaves under the option combinations, decoded by a reference JSON decoder and compared with the input; streaming Write with symbolic WriteLimit vs the in-memory text; Sort determinism over all map iteration orders (in-memory and streamed); pretty.Writer (alignment, line breaking) output decodes to the input"),
 "C05": ("DESIGN.md §5 C05", "jp.Expr.Get vs a reference selector over concrete data shapes with symbolic indexes, slice bounds, keys and filter constants, every fragment kind in every position"),
 "C06": ("DESIGN.md §5 C06", "no-panic / terminates assertions on every byte string up to N bytes through the JSON and SEN parsers, validators and tokenizers, no panic of the JSON per-buffer functions from every canonical machine state on every chunk of <= L bytes (inductive step: streamed inputs of any length), and through the JSONPath / filter-script text parser (Must* panics must carry an error, never a runtime fault); panics are explicit fault branches of the executor, non-termination candidates are confirmed natively"),
 "C10": ("DESIGN.md §5 C10", "sen.Writer -> sen.Parser round trip of every string up to N bytes in four contexts (top, element, value, key) and of tree shapes with symbolic leaves under writer options, and of pretty.Writer in SEN mode; the oracle is the real parser plus tree equality"),
 "C11": ("DESIGN.md §5 C11", "Has, First, FirstFound, Locate, Walk, GetNodes, FirstNode, the evaluators on gen data and on user jp.Keyed / jp.Indexed collections against Get, same symbolic path space as C05"),
 "C12": ("DESIGN.md §5 C12", "operator x left kind x right kind matrix with symbolic operand values against the property's typed comparison semantics; totality; ==/!= complement; the in operator; the same element held as gen nodes; multi-valued operands; Script.Match vs filter"),
 "C13": ("DESIGN.md §5 C13", "Set/Del/Remove/Modify and their *One forms vs reference mutations at the locations the reference selector picks (whole-tree equality = frame condition), symbolic indexes/bounds/keys; plus a slice-grid frame assertion that does not depend on how a slice end is read; the same requests on jp.Keyed / jp.Indexed collections and on gen nodes agree with the simple data"),
 "C14": ("DESIGN.md §5 C14", "print / parse / print round trip of Child keys (all keys up to K bytes, 5 positions, dot and bracket form), symbolic integers in Nth/Slice/Union, and every typed equation tree up to 3 operators through both printers, with the solver searching operand values that distinguish original and re-parsed evaluation"),
 "C17": ("DESIGN.md §5 C17", "oj.Match / MatchLoad (chunked) callback sequence vs the outermost reference selections on the parsed document in document order, concrete document skeletons with symbolic leaves, one or two targets with symbolic indexes"),
 "C18": ("DESIGN.md §5 C18", "Generify/Simplify, GenAlter/Alter, Dup, Decompose, gen Dup on tree shapes with symbolic leaves: exact tree equality, no shared containers (heap identity in the executor), mutate-after-copy in both directions; gen vs simple writer output"),
 "C20": ("DESIGN.md §5 C20", "asm plans [set $.asm [fn args...]] over 19 functions x arity x argument kinds with symbolic values: no panic, determinism, $.src frame, documented results for the all-int / all-bool / string cells, String() -> sen.Parse -> NewPlan equivalence; eq/neq on containers"),
 "C19": ("DESIGN.md §5 C19", "alt.Diff/Compare/Match on pairs of trees with symbolic leaves and ignore paths: empty iff equal (up to numeric width, null-vs-absent), soundness and completeness of the reported paths, Compare vs Diff, Match vs reference; gen nodes vs simple data"),
 "C07": ("DESIGN.md §5 C07", "two-call histories on every reusable parser / validator / tokenizer / writer and through the pooled package-level functions (sync.Pool contract stub), first call symbolic and state-setting, second call compared with a fresh instance; earlier results re-inspected"),
 "C08": ("DESIGN.md §5 C08", "PARTIAL: the sequential ownership lemma only - two consecutive calls of the pooled / shared APIs on private symbolic data (also with 70 KiB outputs): earlier results unaltered, no storage shared between results, inputs and (through reuse) pooled instances; interleavings, the race detector's view and the reflection caches are outside the claim"),
 "C09": ("DESIGN.md §5 C09", "reported Line/Column vs the reference's first-offending-byte position on every rejecting path: every byte string up to N bytes, and the JSON skeletons with free bytes delivered whole / byte by byte / split at every position (reader variants)"),
}
NA = {
 "C15": "depends on reflect + unsafe field-offset code over arbitrary user struct types; cannot be encoded by the go/ssa symbolic executor (DESIGN.md §6)",
 "C16": "reflection-driven recomposer and type registry over arbitrary user struct types; cannot be encoded by the go/ssa symbolic executor (DESIGN.md §6)",
}
props = [json.loads(l) for l in open('/verif/properties.jsonl')]
m = {
 "version": 1,
 "setup_cmd": "cd /verif/engine && GOFLAGS=-mod=mod GOPROXY=off GOSUMDB=off GOTOOLCHAIN=local go build -o /verif/bin/vcheck ./cmd/vcheck",
 "hooks": {"guard": "verif", "enable": "no hooks are needed: harnesses are injected with go/packages Overlay and `go test -overlay`; the build tag `verif` is reserved", "baseline_off_cmd": json.load(open('/root/.vp/BASELINE.json'))['cmd'], "source_commits": [], "add_only": True},
 "engines": [{"name": "gosym", "path": "/verif/engine", "serves_properties": sorted(CLAIMED), "kind_free_text": "path-forking symbolic executor over go/ssa (x/tools v0.29.0) with z3 4.8.12 deciding every branch and assertion; native replay through go test -overlay"}],
 "checks": [], "not_applicable": [],
 "notes": "18 properties are claimed; C15/C16 are not applicable to the technique (reflection over user struct types); the C08 claim is PARTIAL (sequential ownership lemma, no interleavings). Exit status 2 = inconclusive (infrastructure), never reported as a pass. Open known findings (genuine defects that could not be repaired with a small safe patch) are listed in /verif/known_findings.json and printed as KNOWN-FINDING lines.",
}
for p in props:
    pid = p['id']
    if pid in CLAIMED:
        ref, what = CLAIMED[pid]
        m['checks'].append({
          "property_id": pid,
          "quick_cmd": f"/verif/bin/vcheck -p {pid} -tier quick",
          "thorough_cmd": f"/verif/bin/vcheck -p {pid} -tier thorough",
          "evidence_file": f"/verif/evidence/{pid}.json",
          "replay_cmd_template": "/verif/bin/vcheck -replay {path}",
          "engine": "gosym",
          "level_claimed": {"category": "model_checking", "text": "bounded symbolic execution of the real Go code (go/ssa) with an SMT solver deciding every path condition and assertion: " + what + "; all inputs within the bounds stated in the evidence file are covered, nothing outside them", "design_ref": ref},
          "level_note": "trusted: the SSA->SMT executor (validated on every run by native replay of solver models of passing paths), z3 4.8.12, the reference models in harness/internal/vref, the contract stubs listed in DESIGN.md §2.6; bounds and outside-claim items are in the evidence file",
          "technique": "solver-based bounded symbolic execution of go/ssa (z3), counterexamples replayed natively",
        })
    elif pid in NA:
        m['not_applicable'].append({"property_id": pid, "reason": NA[pid]})
    else:
        m['not_applicable'].append({"property_id": pid, "reason": "check not built yet (planned, DESIGN.md §5)"})
json.dump(m, open('/verif/MANIFEST.json', 'w'), indent=1)
print("claimed:", sorted(CLAIMED))
