// Package load builds the SSA program for /repo's current working tree plus
// the overlay (harnesses, vx, vref).
package load

import (
	"fmt"
	"os"
	"path/filepath"
	"sort"
	"strings"

	"golang.org/x/tools/go/packages"
	"golang.org/x/tools/go/ssa"
	"golang.org/x/tools/go/ssa/ssautil"
)

const Module = "github.com/ohler55/ojg"

type Program struct {
	Prog    *ssa.Program
	Pkgs    map[string]*ssa.Package // by import path
	Overlay map[string][]byte       // virtual path -> content
	Repo    string
}

// BuildOverlay maps harness sources under harnessDir into repo.
// Layout: harnessDir/<pkgdir>/*.go -> repo/<pkgdir>/ ("root" = module root).
func BuildOverlay(repo, harnessDir string) (map[string][]byte, error) {
	ov := map[string][]byte{}
	err := filepath.Walk(harnessDir, func(p string, info os.FileInfo, err error) error {
		if err != nil {
			return err
		}
		if info.IsDir() || !strings.HasSuffix(p, ".go") {
			return nil
		}
		rel, _ := filepath.Rel(harnessDir, p)
		parts := strings.Split(rel, string(filepath.Separator))
		if parts[0] == "root" {
			parts = parts[1:]
		}
		dst := filepath.Join(append([]string{repo}, parts...)...)
		b, err := os.ReadFile(p)
		if err != nil {
			return err
		}
		ov[dst] = b
		return nil
	})
	return ov, err
}

// Load type-checks and builds SSA for the given package patterns (relative to repo).
func Load(repo string, overlay map[string][]byte, patterns []string) (*Program, error) {
	cfg := &packages.Config{
		Mode:       packages.LoadAllSyntax,
		Dir:        repo,
		Overlay:    overlay,
		BuildFlags: []string{"-tags=verifsym"},
		Env:        append(os.Environ(), "GOFLAGS=-mod=mod", "GOPROXY=off", "GOSUMDB=off", "GOTOOLCHAIN=local", "CGO_ENABLED=0"),
		Tests:      false,
	}
	pkgs, err := packages.Load(cfg, patterns...)
	if err != nil {
		return nil, err
	}
	var errs []string
	packages.Visit(pkgs, nil, func(p *packages.Package) {
		for _, e := range p.Errors {
			errs = append(errs, e.Error())
		}
	})
	if len(errs) > 0 {
		sort.Strings(errs)
		if len(errs) > 20 {
			errs = errs[:20]
		}
		return nil, fmt.Errorf("package load errors:\n%s", strings.Join(errs, "\n"))
	}
	prog, _ := ssautil.AllPackages(pkgs, ssa.InstantiateGenerics|ssa.SanityCheckFunctions*0)
	prog.Build()
	res := &Program{Prog: prog, Pkgs: map[string]*ssa.Package{}, Overlay: overlay, Repo: repo}
	for _, p := range prog.AllPackages() {
		res.Pkgs[p.Pkg.Path()] = p
	}
	return res, nil
}
