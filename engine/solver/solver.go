// Package solver drives SMT solvers: a long-lived incremental z3 process
// mirroring the DFS stack, a second long-lived solver used to cross-check
// assertion queries from standalone scripts, and a one-shot portfolio.
package solver

import (
	"bufio"
	"context"
	"fmt"
	"io"
	"math/big"
	"os"
	"os/exec"
	"strconv"
	"strings"
	"time"

	"verif/engine/sym"
)

type Result int

const (
	Unknown Result = iota
	Sat
	Unsat
)

func (r Result) String() string { return [...]string{"unknown", "sat", "unsat"}[r] }

// Stats are accumulated per process.
type Stats struct {
	Queries  int
	Sat      int
	Unsat    int
	Unknown  int
	Errors   int
	Time     time.Duration
	Restarts int
	MaxQuery time.Duration
	Slow     int
}

// Proc is one long-lived solver process speaking SMT-LIB2 on stdin/stdout.
type Proc struct {
	Name        string
	argv        []string
	prelude     string
	cmd         *exec.Cmd
	in          io.WriteCloser
	out         *bufio.Reader
	Stats       Stats
	Depth       int
	Log         io.Writer // optional transcript
	Dead        error
	TimeoutMS   int
	UseGetValue bool
}

func Start(name string, argv []string, prelude string) (*Proc, error) {
	p := &Proc{Name: name, argv: argv, prelude: prelude}
	if err := p.start(); err != nil {
		return nil, err
	}
	return p, nil
}

func (p *Proc) start() error {
	cmd := exec.Command(p.argv[0], p.argv[1:]...)
	in, err := cmd.StdinPipe()
	if err != nil {
		return err
	}
	out, err := cmd.StdoutPipe()
	if err != nil {
		return err
	}
	cmd.Stderr = os.Stderr
	if err := cmd.Start(); err != nil {
		return err
	}
	p.cmd, p.in, p.out = cmd, in, bufio.NewReaderSize(out, 1<<16)
	p.Depth = 0
	p.Dead = nil
	if p.prelude != "" {
		p.Send(p.prelude)
	}
	return nil
}

func (p *Proc) Close() {
	if p.cmd != nil {
		p.in.Close()
		p.cmd.Process.Kill()
		p.cmd.Wait()
		p.cmd = nil
	}
}

// Send writes raw commands (no response expected).
func (p *Proc) Send(s string) {
	if p.Dead != nil {
		return
	}
	if p.Log != nil {
		io.WriteString(p.Log, s)
		if !strings.HasSuffix(s, "\n") {
			io.WriteString(p.Log, "\n")
		}
	}
	if _, err := io.WriteString(p.in, s); err != nil {
		p.Dead = err
		return
	}
	if !strings.HasSuffix(s, "\n") {
		io.WriteString(p.in, "\n")
	}
}

func (p *Proc) Push() { p.Send("(push 1)\n"); p.Depth++ }
func (p *Proc) Pop(n int) {
	if n <= 0 {
		return
	}
	p.Send(fmt.Sprintf("(pop %d)\n", n))
	p.Depth -= n
}

// readSexp reads one balanced s-expression or atom line.
func (p *Proc) readSexp() (string, error) {
	var sb strings.Builder
	depth := 0
	started := false
	inStr := false
	for {
		b, err := p.out.ReadByte()
		if err != nil {
			return sb.String(), err
		}
		if !started {
			if b == ' ' || b == '\n' || b == '\r' || b == '\t' {
				continue
			}
			started = true
		}
		sb.WriteByte(b)
		if inStr {
			if b == '"' {
				inStr = false
			}
			continue
		}
		switch b {
		case '"':
			inStr = true
		case '(':
			depth++
		case ')':
			depth--
			if depth == 0 {
				return sb.String(), nil
			}
		case '\n':
			if depth == 0 {
				return strings.TrimSpace(sb.String()), nil
			}
		}
	}
}

// Check runs (check-sat) and returns the verdict. Any "(error" response
// or a dead process yields Unknown with err set.
func (p *Proc) Check() (Result, error) {
	if p.Dead != nil {
		return Unknown, p.Dead
	}
	t0 := time.Now()
	p.Send("(check-sat)\n")
	resp, err := p.readResp()
	d := time.Since(t0)
	p.Stats.Time += d
	p.Stats.Queries++
	if d > p.Stats.MaxQuery {
		p.Stats.MaxQuery = d
	}
	if d > 2*time.Second {
		p.Stats.Slow++
	}
	if err != nil {
		p.Stats.Errors++
		p.Dead = err
		return Unknown, err
	}
	switch resp {
	case "sat":
		p.Stats.Sat++
		return Sat, nil
	case "unsat":
		p.Stats.Unsat++
		return Unsat, nil
	case "unknown", "timeout":
		p.Stats.Unknown++
		return Unknown, nil
	}
	p.Stats.Errors++
	return Unknown, fmt.Errorf("solver %s: unexpected response %q", p.Name, resp)
}

func (p *Proc) readResp() (string, error) {
	type rr struct {
		s   string
		err error
	}
	if p.TimeoutMS <= 0 {
		return p.readSexp()
	}
	ch := make(chan rr, 1)
	go func() {
		s, err := p.readSexp()
		ch <- rr{s, err}
	}()
	select {
	case r := <-ch:
		return r.s, r.err
	case <-time.After(time.Duration(p.TimeoutMS) * time.Millisecond):
		p.cmd.Process.Kill()
		<-ch
		return "", fmt.Errorf("solver %s: hard timeout", p.Name)
	}
}

// GetValues fetches values of the given variables after a sat answer.
// (eval v) is used per variable: z3 4.8.12's get-value is ~20x slower
// when many define-funs are live.
func (p *Proc) GetValues(vars []*sym.Term, m *sym.Model) error {
	if len(vars) == 0 {
		return nil
	}
	if p.UseGetValue {
		return p.getValues(vars, m)
	}
	var sb strings.Builder
	for _, v := range vars {
		sb.WriteString("(eval ")
		sb.WriteString(v.Name)
		sb.WriteString(" :completion true)\n")
	}
	t0 := time.Now()
	p.Send(sb.String())
	defer func() { p.Stats.Time += time.Since(t0) }()
	for _, v := range vars {
		resp, err := p.readResp()
		if err != nil {
			p.Dead = err
			return err
		}
		if strings.HasPrefix(resp, "(error") {
			p.Stats.Errors++
			return fmt.Errorf("solver %s: %s", p.Name, resp)
		}
		if err := ParseValues("(("+v.Name+" "+resp+"))", m); err != nil {
			return err
		}
	}
	return nil
}

func (p *Proc) getValues(vars []*sym.Term, m *sym.Model) error {
	var sb strings.Builder
	sb.WriteString("(get-value (")
	for _, v := range vars {
		sb.WriteString(v.Name)
		sb.WriteByte(' ')
	}
	sb.WriteString("))\n")
	t0 := time.Now()
	p.Send(sb.String())
	resp, err := p.readResp()
	p.Stats.Time += time.Since(t0)
	if err != nil {
		p.Dead = err
		return err
	}
	if strings.HasPrefix(resp, "(error") {
		p.Stats.Errors++
		return fmt.Errorf("solver %s: %s", p.Name, resp)
	}
	return ParseValues(resp, m)
}

// ParseValues parses "((a #x41) (b true) (f (fp #b0 #b.. #b..)))".
func ParseValues(resp string, m *sym.Model) error {
	toks := tokenize(resp)
	pos := 0
	var parse func() (any, error)
	parse = func() (any, error) {
		if pos >= len(toks) {
			return nil, fmt.Errorf("eof")
		}
		t := toks[pos]
		pos++
		if t == "(" {
			var l []any
			for pos < len(toks) && toks[pos] != ")" {
				x, err := parse()
				if err != nil {
					return nil, err
				}
				l = append(l, x)
			}
			pos++
			return l, nil
		}
		return t, nil
	}
	top, err := parse()
	if err != nil {
		return err
	}
	l, ok := top.([]any)
	if !ok {
		return fmt.Errorf("bad get-value response %q", resp)
	}
	for _, e := range l {
		pair, ok := e.([]any)
		if !ok || len(pair) != 2 {
			return fmt.Errorf("bad pair in %q", resp)
		}
		name, _ := pair[0].(string)
		if err := setVal(m, name, pair[1]); err != nil {
			return err
		}
	}
	return nil
}

func setVal(m *sym.Model, name string, v any) error {
	switch x := v.(type) {
	case string:
		switch {
		case x == "true":
			m.Vals[name] = 1
		case x == "false":
			m.Vals[name] = 0
		case strings.HasPrefix(x, "#x"):
			if len(x)-2 > 16 {
				b, _ := new(big.Int).SetString(x[2:], 16)
				m.Bigs[name] = b
			} else {
				u, err := strconv.ParseUint(x[2:], 16, 64)
				if err != nil {
					return err
				}
				m.Vals[name] = u
			}
		case strings.HasPrefix(x, "#b"):
			if len(x)-2 > 64 {
				b, _ := new(big.Int).SetString(x[2:], 2)
				m.Bigs[name] = b
			} else {
				u, err := strconv.ParseUint(x[2:], 2, 64)
				if err != nil {
					return err
				}
				m.Vals[name] = u
			}
		default:
			return fmt.Errorf("unparsed value %q for %s", x, name)
		}
	case []any:
		// (fp s e m) | (_ +zero e m) | (_ NaN e m) | (_ bvN w)
		if len(x) == 4 && x[0] == "fp" {
			s, e, mm := bitsOf(x[1]), bitsOf(x[2]), bitsOf(x[3])
			eb, mb := bitLen(x[2]), bitLen(x[3])
			_ = eb
			m.Vals[name] = (s<<uint(bitLen(x[2])+mb) | e<<uint(mb) | mm)
			return nil
		}
		if len(x) == 4 && x[0] == "_" {
			kind, _ := x[1].(string)
			eb, _ := strconv.Atoi(x[2].(string))
			sb, _ := strconv.Atoi(x[3].(string))
			mb := sb - 1
			expAll := (uint64(1)<<uint(eb) - 1) << uint(mb)
			switch kind {
			case "+zero":
				m.Vals[name] = 0
			case "-zero":
				m.Vals[name] = 1 << uint(eb+mb)
			case "+oo":
				m.Vals[name] = expAll
			case "-oo":
				m.Vals[name] = expAll | 1<<uint(eb+mb)
			case "NaN":
				m.Vals[name] = expAll | 1<<uint(mb-1)
			default:
				return fmt.Errorf("unparsed fp value %v", x)
			}
			return nil
		}
		if len(x) == 3 && x[0] == "_" {
			s, _ := x[1].(string)
			if strings.HasPrefix(s, "bv") {
				b, _ := new(big.Int).SetString(s[2:], 10)
				if b.IsUint64() {
					w, _ := strconv.Atoi(x[2].(string))
					if w <= 64 {
						m.Vals[name] = b.Uint64()
						return nil
					}
				}
				m.Bigs[name] = b
				return nil
			}
		}
		return fmt.Errorf("unparsed value %v for %s", x, name)
	}
	return nil
}

func bitsOf(v any) uint64 {
	s, _ := v.(string)
	if strings.HasPrefix(s, "#b") {
		u, _ := strconv.ParseUint(s[2:], 2, 64)
		return u
	}
	if strings.HasPrefix(s, "#x") {
		u, _ := strconv.ParseUint(s[2:], 16, 64)
		return u
	}
	return 0
}

func bitLen(v any) int {
	s, _ := v.(string)
	if strings.HasPrefix(s, "#b") {
		return len(s) - 2
	}
	if strings.HasPrefix(s, "#x") {
		return (len(s) - 2) * 4
	}
	return 0
}

func tokenize(s string) []string {
	var toks []string
	i := 0
	for i < len(s) {
		c := s[i]
		switch {
		case c == '(' || c == ')':
			toks = append(toks, string(c))
			i++
		case c == ' ' || c == '\n' || c == '\t' || c == '\r':
			i++
		case c == '"':
			j := i + 1
			for j < len(s) && s[j] != '"' {
				j++
			}
			toks = append(toks, s[i:min(j+1, len(s))])
			i = j + 1
		default:
			j := i
			for j < len(s) && s[j] != '(' && s[j] != ')' && s[j] != ' ' && s[j] != '\n' && s[j] != '\t' && s[j] != '\r' {
				j++
			}
			toks = append(toks, s[i:j])
			i = j
		}
	}
	return toks
}

// ---------- one-shot runs ----------

type OneShot struct {
	Name string
	Argv []string // script path appended
}

var (
	Z3Old   = OneShot{"z3-4.8.12", []string{"z3", "-smt2"}}
	Z3New   = OneShot{"z3-new-5.1.0", []string{"z3-new", "-smt2"}}
	CVC5Int = OneShot{"cvc5-1.0-intblast", []string{"cvc5", "--solve-bv-as-int=sum", "--produce-models", "--lang=smt2"}}
	CVC5    = OneShot{"cvc5-1.0", []string{"cvc5", "--produce-models", "--lang=smt2"}}
)

type ShotResult struct {
	Solver string
	Res    Result
	Out    string
	Err    error
	Dur    time.Duration
}

// RunOneShot runs script (which must end with check-sat / get-value commands)
// under a timeout.
func RunOneShot(o OneShot, script string, timeout time.Duration) ShotResult {
	ctx, cancel := context.WithTimeout(context.Background(), timeout)
	defer cancel()
	return runOneShotCtx(ctx, o, script)
}

func runOneShotCtx(ctx context.Context, o OneShot, script string) ShotResult {
	f, err := os.CreateTemp("", "vq-*.smt2")
	if err != nil {
		return ShotResult{Solver: o.Name, Err: err}
	}
	defer os.Remove(f.Name())
	f.WriteString(script)
	f.Close()
	t0 := time.Now()
	args := append(append([]string{}, o.Argv[1:]...), f.Name())
	out, err := exec.CommandContext(ctx, o.Argv[0], args...).CombinedOutput()
	r := ShotResult{Solver: o.Name, Out: string(out), Dur: time.Since(t0)}
	s := strings.TrimSpace(string(out))
	first := s
	if i := strings.IndexByte(s, '\n'); i >= 0 {
		first = s[:i]
	}
	if strings.Contains(s, "(error") {
		r.Err = fmt.Errorf("%s: %s", o.Name, s)
		return r
	}
	switch first {
	case "sat":
		r.Res = Sat
	case "unsat":
		r.Res = Unsat
	default:
		r.Res = Unknown
		if ctx.Err() != nil {
			r.Err = fmt.Errorf("%s: timeout/cancelled", o.Name)
		} else if err != nil && first != "unknown" {
			r.Err = fmt.Errorf("%s: %v: %s", o.Name, err, s)
		}
	}
	return r
}

// Race runs the solvers in parallel and returns the first definite answer
// (the others are cancelled).
func Race(solvers []OneShot, script string, timeout time.Duration) ShotResult {
	ctx, cancel := context.WithTimeout(context.Background(), timeout)
	defer cancel()
	ch := make(chan ShotResult, len(solvers))
	for _, s := range solvers {
		s := s
		go func() { ch <- runOneShotCtx(ctx, s, script) }()
	}
	last := ShotResult{Res: Unknown}
	for range solvers {
		r := <-ch
		if r.Err == nil && r.Res != Unknown {
			return r
		}
		last = r
	}
	return last
}

// Portfolio races the given solvers on the script; the first definite answer
// wins. If two definite answers disagree an error is returned.
func Portfolio(solvers []OneShot, script string, timeout time.Duration) (Result, []ShotResult, error) {
	ch := make(chan ShotResult, len(solvers))
	for _, s := range solvers {
		s := s
		go func() { ch <- RunOneShot(s, script, timeout) }()
	}
	var all []ShotResult
	res := Unknown
	var firstDef *ShotResult
	for range solvers {
		r := <-ch
		all = append(all, r)
		if r.Err == nil && r.Res != Unknown {
			if firstDef == nil {
				rr := r
				firstDef = &rr
				res = r.Res
				// do not wait for the slow ones beyond a short grace period
			} else if r.Res != firstDef.Res {
				return Unknown, all, fmt.Errorf("solver disagreement: %s=%v %s=%v", firstDef.Solver, firstDef.Res, r.Solver, r.Res)
			}
		}
	}
	return res, all, nil
}
