package main

import (
	"flag"
	"fmt"
	"os"

	"verif/engine/run"
)

func main() {
	var o run.Options
	flag.StringVar(&o.Property, "p", "", "property id (C01..C20)")
	flag.StringVar(&o.Tier, "tier", "quick", "quick|thorough")
	flag.StringVar(&o.Repo, "repo", "/repo", "repository root")
	flag.StringVar(&o.Verif, "verif", "/verif", "verification root")
	flag.StringVar(&o.Harness, "harness", "", "run only this harness function (debugging)")
	flag.StringVar(&o.Replay, "replay", "", "replay a counterexample file natively")
	flag.IntVar(&o.Workers, "j", 16, "workers")
	flag.BoolVar(&o.Verbose, "v", false, "verbose")
	flag.BoolVar(&o.SelfTest, "selftest", false, "run the engine self-test")
	flag.BoolVar(&o.NoReplay, "noreplay", false, "do not replay counterexamples natively (debugging)")
	flag.BoolVar(&o.Summary, "summary", false, "one line per violation (debugging)")
	flag.IntVar(&o.MaxPaths, "maxpaths", 0, "stop after this many paths (debugging)")
	flag.Parse()
	code, err := run.Main(&o)
	if err != nil {
		fmt.Fprintln(os.Stderr, "vcheck:", err)
	}
	os.Exit(code)
}
