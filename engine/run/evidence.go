package run

import (
	"encoding/json"
	"fmt"
	"os"
	"path/filepath"
	"sort"
	"strings"
	"time"
)

func writeEvidence(o *Options, all []*harnessStats, findings []*finding, violations int, inconclusive []string, wall time.Duration) error {
	var paths, steps, validated int64
	var assertQ, feasQ, assertsSeen, modelHits int64
	var sat, unsat, unknown, serr int
	var solverTime, fbT time.Duration
	var fbQ int64
	funcs := map[string]bool{}
	var samples []any
	bounds := map[string]any{}
	covers := map[string]bool{}
	ends := map[string]int64{}
	unsupported := map[string]int64{}
	var notes []string
	for _, hs := range all {
		paths += hs.Paths
		steps += hs.Steps
		validated += int64(hs.Validated)
		assertQ += hs.AssertQ
		feasQ += hs.FeasQ
		assertsSeen += hs.AssertsSeen
		modelHits += hs.ModelHits
		sat += hs.Solver.Sat
		unsat += hs.Solver.Unsat
		unknown += hs.Solver.Unknown
		serr += hs.Solver.Errors
		solverTime += hs.Solver.Time
		fbQ += hs.FallbackQ
		fbT += hs.FallbackTime
		for f := range hs.Funcs {
			if strings.HasPrefix(f, "github.com/ohler55/ojg") || strings.HasPrefix(f, "(github.com/ohler55/ojg") || strings.HasPrefix(f, "(*github.com/ohler55/ojg") {
				if !strings.Contains(f, "/internal/vx") && !strings.Contains(f, "/internal/vref") && !strings.Contains(f, "Verif") {
					funcs[f] = true
				}
			}
		}
		for _, s := range hs.Samples {
			samples = append(samples, s)
		}
		bounds[hs.Spec.Name] = map[string]any{"params": hs.Params, "paths": hs.Paths, "work_units": hs.Units, "wall_s": round1(hs.Wall.Seconds()), "encodes": hs.Spec.Note}
		for c := range hs.Covers {
			covers[hs.Spec.Name+":"+c] = true
		}
		for k, v := range hs.Ends {
			ends[k] += v
		}
		for k, v := range hs.Unsupported {
			unsupported[hs.Spec.Name+": "+k] += v
		}
		if hs.Spec.Note != "" {
			notes = append(notes, hs.Spec.Name+": "+hs.Spec.Note)
		}
	}
	var fl []string
	for f := range funcs {
		fl = append(fl, f)
	}
	sort.Strings(fl)
	var cl []string
	for c := range covers {
		cl = append(cl, c)
	}
	sort.Strings(cl)
	var knownHit, fsum []any
	for _, f := range findings {
		e := map[string]any{"signature": f.Sig, "paths": f.Count, "confirmed_natively": f.Confirmed, "witness": witnessString(f.Fail)}
		if f.Known != nil {
			e["known_finding"] = f.Known.ID
			knownHit = append(knownHit, f.Known.ID+" <- "+f.Sig)
		}
		if f.File != "" {
			e["replay"] = f.File
		}
		fsum = append(fsum, e)
	}
	if len(samples) == 0 {
		samples = append(samples, "no path completed")
	}
	if paths == 0 {
		paths = 0
	}
	cov := map[string]any{
		"states":                        paths,
		"transitions":                   steps,
		"traces_validated_against_impl": validated,
		"samples":                       samples,
		"exhaustive":                    len(inconclusive) == 0,
		"explanation":                   "states = feasible symbolic paths explored to completion (each path is a set of inputs described by a path condition; every branch feasibility and every assertion on it was decided by the SMT solver); transitions = SSA instructions executed symbolically; traces_validated_against_impl = solver models of passing paths re-run natively (go test -overlay) with all assertions and observations compared.",
		"functions_encoded":             fl,
		"functions_encoded_count":       len(fl),
		"bounds":                        bounds,
		"queries": map[string]any{
			"feasibility_and_assertion_checksat": sat + unsat + unknown,
			"assertions_encountered":             assertsSeen,
			"assertion_queries":                  assertQ,
			"feasibility_queries":                feasQ,
			"branches_decided_by_cached_model":   modelHits,
			"sat":                                sat, "unsat": unsat, "unknown": unknown, "errors": serr,
		},
		"solver_time_s":      map[string]any{"z3-4.8.12 (incremental)": round1(solverTime.Seconds())},
		"cover_witnesses":    cl,
		"path_ends":          ends,
		"unsupported_sites":  unsupported,
		"findings":           fsum,
		"known_findings_hit": knownHit,
		"inconclusive":       inconclusive,
	}
	ev := map[string]any{
		"property_id": o.Property,
		"tier":        o.Tier,
		"seed":        o.Seed,
		"level":       "model_checking",
		"coverage":    cov,
		"assumptions": append([]string{
			"the go/ssa -> SMT executor (verif/engine) is the trusted translator; it is validated on every run by re-executing solver models natively and comparing observations",
			"z3 4.8.12 decides every query; concrete lengths, pointers and dynamic types (case-split by the harness), symbolic scalars and bytes",
			"fmt-built strings are opaque, sync.Pool.Get returns the most recent Put (or New) unless the harness forks it, amd64, Go 1.23.5 standard library sources",
			"reference models (harness/internal/vref) are written from RFC 8259 / the property text and are executed symbolically on the same inputs",
		}, notes...),
		"wall_s":     round1(wall.Seconds()),
		"violations": violations,
	}
	dir := filepath.Join(o.Verif, "evidence")
	os.MkdirAll(dir, 0o755)
	b, err := json.MarshalIndent(ev, "", " ")
	if err != nil {
		return err
	}
	return os.WriteFile(filepath.Join(dir, o.Property+".json"), append(b, '\n'), 0o644)
}

func round1(f float64) float64 {
	return float64(int64(f*10+0.5)) / 10
}

var _ = fmt.Sprint
