package run

// Registry lists every harness, per property.
func Registry() []*Spec {
	var r []*Spec
	add := func(s Spec) { c := s; r = append(r, &c) }

	// ---- strict JSON front-ends: C01 (language), C06 (no panic), C09 (positions)
	direct := Spec{Name: "VerifJSON_Direct", Pkg: "oj",
		Quick: map[string]int{"N": 4}, Thorough: map[string]int{"N": 5},
		Covers: []string{"accepted", "rejected", "incomplete"}, UnitDepth: 4,
		Note: "every byte string of length <= N through oj.Parser.Parse, Parser.ParseReader, Validator{OnlyOne}, Tokenizer{OnlyOne}, gen.Parser.Parse vs the RFC 8259 reference recogniser"}
	for _, pa := range []struct {
		prop    string
		asserts []string
	}{{"C01", []string{"accept-iff-valid"}}, {"C06", []string{"no-panic"}}, {"C09", []string{"pos"}}} {
		s := direct
		s.Property, s.Asserts = pa.prop, pa.asserts
		add(s)
	}
	add(Spec{Property: "C06", Name: "VerifSEN_Direct", Pkg: "asm", HangCheck: true, MaxSteps: 400000,
		Quick: map[string]int{"N": 3}, Thorough: map[string]int{"N": 4},
		Covers: []string{"accepted", "rejected"}, UnitDepth: 3, Asserts: []string{"no-panic", "terminates"},
		Note: "every byte string of length <= N through sen.Parser.Parse and sen.Tokenizer.Parse: no panic; a path over the step budget (400k SSA instructions) is replayed natively under an 8 s limit and reported as non-termination only if it really hangs"})
	add(Spec{Property: "C06", Name: "VerifC06_JP", Pkg: "asm", HangCheck: true, MaxSteps: 400000,
		Quick: map[string]int{"N": 4}, Thorough: map[string]int{"N": 5},
		Covers: []string{"accepted", "rejected"}, UnitDepth: 8, Asserts: []string{"no-panic", "no-runtime-fault", "panic-carries-error", "parse-agrees-with-must", "terminates"},
		AllowUnsupported: []string{"formatted (fmt) string", "(reflect.Value).", "regexp.Compile", "strconv.FormatFloat of a symbolic float"},
		Note: "JSONPath / filter text: every byte string of <= N bytes and 37 path, filter and proc skeletons with free symbolic bytes through jp.MustParse (a panic must carry an error, never a runtime fault) and jp.Parse (never panics, agrees with MustParse); an expression that parsed is printed and evaluated with Get, First, Has, Locate on a fixed document without a panic; regular expression literals are outside (regexp is not executed)"})
	// ---- inductive step of the validator state machine: C01 / C06 for inputs of any length
	for _, fe := range []string{"Validator", "Tokenizer", "Parser", "GenParser"} {
		what := "oj.Validator.validateBuffer"
		extra := ""
		pkg := "oj"
		thoroughL := 2 // L = 3 was measured (and is registered) for the validator only: 231 k paths, 7.5 min
		if fe == "Validator" {
			thoroughL = 3
		}
		switch fe {
		case "GenParser":
			pkg = "gen"
			what, extra = "gen.Parser.parseBuffer", "; number states also from prefixes of 20+ digits (text form of the accumulators); the value stack holds the 0..1 elements of the canonical prefix"
		case "Tokenizer":
			what, extra = "oj.Tokenizer.tokenizeBuffer (ZeroHandler)", "; number states also from prefixes of 20+ digits (text form of the accumulators)"
		case "Parser":
			what, extra = "oj.Parser.parseBuffer", "; number states also from prefixes of 20+ digits (text form of the accumulators); the value stack holds the 0..1 elements of the canonical prefix"
		}
		stepS := Spec{Name: "VerifStep_" + fe, Pkg: pkg,
			Quick: map[string]int{"L": 2}, Thorough: map[string]int{"L": thoroughL},
			Covers: []string{"rejected", "stepped", "accepting-end"}, UnitDepth: 3,
			Note: "one inductive step of " + what + ": from the canonical state of every reference configuration (35 automaton sub-states x container stacks of depth <= L+1, depth L+1 standing for 'or deeper' with an unconstrained bottom entry where the stack is a byte stack; dead fields nextMode / ri / rn / line / noff havocked) the real per-buffer function on every chunk of <= L symbolic bytes errs iff the RFC 8259 reference rejects, never panics, ends in the canonical state of the reference's next configuration (mode, nextMode, ri, container kinds), and the end-of-input call errs iff that configuration is not complete" + extra + "; by induction over reads: the reader entry point on inputs of ANY length and nesting depth delivered in reads of <= L bytes"}
		for _, pa := range []struct {
			prop    string
			asserts []string
		}{{"C01", []string{"prefix-", "post-config", "step-error-iff", "step-state-canonical", "end-error-iff"}}, {"C06", []string{"step-no-panic", "end-no-panic"}}} {
			s := stepS
			s.Property, s.Asserts = pa.prop, pa.asserts
			if pa.prop == "C06" {
				s.Quick = map[string]int{"L": 1} // (C01's quick tier runs the same harness with L = 2)
			}
			add(s)
		}
	}
	// ---- C03: all front-ends agree, however the input is chunked
	add(Spec{Property: "C03", Name: "VerifC03_Chunked", Pkg: "asm",
		Quick: map[string]int{"N": 3}, Thorough: map[string]int{"N": 4, "ALLCOMP": 1},
		Covers: []string{"valid", "invalid"}, UnitDepth: 3,
		Note: "every byte string of length <= N; reader variants behind a chunking reader (every single split point and byte-by-byte; thorough: every composition); oj.Parse vs ParseReader, Tokenizer+Builder, Tokenizer.Load+Builder, gen.Parser(+Reader)+Simplify, Validator(+Reader), and sen.Parser for valid JSON"})
	add(Spec{Property: "C03", Name: "VerifC03_Templates", Pkg: "asm",
		Quick: map[string]int{}, Thorough: map[string]int{},
		Covers: []string{"valid", "invalid"}, UnitDepth: 3,
		Note: "24 JSON skeletons (7..17 bytes: strings, keys, escapes, literals, numbers with fraction and exponent, nesting) with free symbolic bytes at the marked places, delivered whole / byte by byte / split at every position: all JSON front-ends vs oj.Parse, and (on every such input, JSON or SEN-only) sen.Parse vs sen.ParseReader vs sen.Tokenizer{OnlyOne}.Parse/.Load + Builder"})
	add(Spec{Property: "C01", Name: "VerifC03_Templates", Pkg: "asm",
		Quick: map[string]int{}, Thorough: map[string]int{},
		Covers: []string{"valid", "invalid"}, UnitDepth: 3, Asserts: []string{"accept-iff-valid"},
		Note: "the 24 JSON skeletons of the C03 templates harness (7..17 bytes with free symbolic bytes in strings, keys, escapes, \\u hex digits, literals, numbers with fraction and exponent, nested values), whole and chunked: every strict front-end accepts iff the RFC 8259 reference does"})
	add(Spec{Property: "C09", Name: "VerifC03_Templates", Pkg: "asm",
		Quick: map[string]int{}, Thorough: map[string]int{},
		Covers: []string{"valid", "invalid"}, UnitDepth: 3, Asserts: []string{"pos"},
		Note: "the JSON skeletons of the C03 templates harness (7..17 bytes, free symbolic bytes), delivered whole / byte by byte / split at every position: a rejected text is reported at the line and column of the reference's first offending byte by oj.Parse, ParseReader, Tokenizer(+Load), gen.Parser(+Reader) and Validator(+Reader); incomplete texts are not asserted here (end-of-input positions: see the known findings)"})
	add(Spec{Property: "C03", Name: "VerifC03_Multi", Pkg: "asm",
		Quick: map[string]int{"N": 3}, Thorough: map[string]int{"N": 4},
		Covers: []string{"valid", "invalid"}, UnitDepth: 3,
		Note: "multi-document mode: every byte string of <= N bytes and 12 two/three-document skeletons with free bytes, delivered whole / byte by byte / split at every position: oj.Parser.Parse and ParseReader with func(any) bool, func(any) and chan any, Tokenizer(+Load)+Builder, gen.Parser (callback, channel, reader), Validator(+Reader) for error-ness; the SEN family (Parse/ParseReader callback and channel, Tokenizer, Tokenizer.Load) among themselves; and sen vs oj on strict JSON: same error-ness and, when no error, the same sequence of documents"})
	// ---- C05: Get returns exactly what the path denotes
	add(Spec{Property: "C05", Name: "VerifC05_Get", Pkg: "jp",
		Quick: map[string]int{"B": 5, "STEP": 3}, Thorough: map[string]int{"FULL": 1, "B": 5, "STEP": 3},
		Covers: []string{"nonempty", "empty"}, UnitDepth: 5,
		Note: "jp.Expr.Get vs a reference selector; 8 concrete data shapes with distinct leaves; every fragment kind alone, in inner position and in last position (thorough: also between two fragments and every pair of kinds); Nth full-range symbolic int, slice bounds in [-B,B], step in [-STEP,STEP], union members, 1-byte symbolic keys, filter @.a > c with symbolic c"})
	// ---- C11: every evaluator and representation agrees with Get
	add(Spec{Property: "C11", Name: "VerifC11_Agree", Pkg: "jp",
		Quick: map[string]int{"B": 4, "STEP": 2}, Thorough: map[string]int{"FULL": 1, "B": 4, "STEP": 2},
		Covers: []string{"nonempty", "empty"}, UnitDepth: 5, AllowUnsupported: []string{"(reflect.Value)."},
		Note: "Has, First, FirstFound, Locate (+Get of each located path), Expr.Walk, GetNodes/FirstNode and Get / Has / First / Locate / Walk on alt.Generify(data), and Get / Has / First on the same tree held in user collections implementing jp.Keyed and jp.Indexed, against Get on the simple data; same data x path space as C05, paths not ending in a bare descent"})
	// ---- C13: mutations touch exactly the selected locations
	add(Spec{Property: "C13", Name: "VerifC13_Mutate", Pkg: "jp",
		Quick: map[string]int{"B": 3, "STEP": 2, "NTHB": 4, "NSHAPES": 4}, Thorough: map[string]int{"B": 5, "STEP": 3, "NTHB": 6},
		Covers: []string{"changed", "nothing-selected", "error"}, UnitDepth: 6,
		AllowUnsupported: []string{"formatted (fmt) string", "(reflect.Value)."},
		Note: "Set/SetOne/Del/DelOne/Remove/RemoveOne/Modify/ModifyOne vs reference mutations (vref.SetAll/RemoveAll) applied at the locations of the reference selector; frame condition = whole-tree equality with the reference result; overlapping selections (descent) skipped; Set creating new members not asserted; error => data unchanged; a slice-grid frame assertion independent of the slice end reading; Set / Del / Modify on the same tree held in jp.Keyed / jp.Indexed collections have the same effect as on the simple data"})
	// ---- C12: filter scripts are total and typed
	add(Spec{Property: "C12", Name: "VerifC12_Ops", Pkg: "jp",
		Quick: map[string]int{}, Thorough: map[string]int{},
		Covers: []string{"true", "false"}, UnitDepth: 3,
		AllowUnsupported: []string{"(reflect.Value)."},
		Note: "operator x left kind x right kind (nil,bool,int64,float64,string<=2 bytes,array,map,missing; right operand as sub-path or constant), symbolic operand values; == != < > <= >= && || ! exists has against the property's typed semantics, + - * / for totality (ints only), == / != complement, Script.Match = filter membership"})
	add(Spec{Property: "C12", Name: "VerifC12_Multi", Pkg: "jp",
		Quick: map[string]int{}, Thorough: map[string]int{},
		Covers: []string{"true", "false"}, UnitDepth: 3,
		Note: "multi-valued sub-paths on both sides (@.a[*] op @.b[*], 1..3 symbolic int64 each): true iff some combination satisfies the operator"})
	// ---- C14: JSONPath and script text round-trip
	add(Spec{Property: "C14", Name: "VerifC14_Keys", Pkg: "jp",
		Quick: map[string]int{"K": 2}, Thorough: map[string]int{"K": 3},
		Covers: []string{"done"}, UnitDepth: 4,
		Note: "Child(k) for every key of <= K symbolic bytes, 7 positions (first, after root, after child, after descent, in a union, as the string constant of a filter, inside the sub-path of a filter, plus a filter with a float constant from a concrete menu of 6 - the last three also evaluated), String() and BracketString(): parses, fragment-wise equal, prints identically"})
	add(Spec{Property: "C14", Name: "VerifC14_Numbers", Pkg: "jp",
		Quick: map[string]int{"NB": 99}, Thorough: map[string]int{"NB": 999},
		Covers: []string{"done"}, UnitDepth: 7,
		Note: "Nth, Slice (2 and 3 numbers), integer union members: symbolic ints in [-NB,NB] plus min/max int64 and 0; strconv.AppendInt contract stub, the real readInt"})
	add(Spec{Property: "C14", Name: "VerifC14_Equations", Pkg: "jp",
		Quick: map[string]int{"OPS": 3, "SLIM": 1}, Thorough: map[string]int{"OPS": 3},
		Covers: []string{"true", "false"}, UnitDepth: 4,
		Note: "every typed equation tree with <= OPS operators over == < >= && || ! + - *, leaves @.a @.b @.c and a symbolic int constant: (quick: == && || ! - * only) Equation.String() through MustParseEquation and the Filter/Script printer through ParseString: parses, prints identically, and evaluates identically for all a,b,c in [-4,3], p,q bool"})
	// ---- C19: Diff / Compare / Match
	add(Spec{Property: "C19", Name: "VerifC19_Diff", Pkg: "alt",
		Quick: map[string]int{"MAXIGN": 1, "LEAFKINDS": 3}, Thorough: map[string]int{"MAXIGN": 2, "LEAFKINDS": 3},
		Covers: []string{"equal", "different"}, UnitDepth: 4,
		Note: "alt.Diff/Compare on 23 shape pairs (the 23rd: two rows with int64 leaves and two ignore paths naming different members at different indexes) (depth <= 2, <= 3 leaves, symbolic a/b keys) with symbolic small leaves of LEAFKINDS kinds (int64, integral float64, nil, int; VerifC19_Match thorough also non-integral float, string); the first leaf of each tree may also be a uint64, small or 2^63 and 0..MAXIGN ignore paths from a menu of 9 (indexes, keys, wildcards, 2-element paths); the same trees held as gen nodes (alt.Generify) give the same Diff paths and the same Compare verdict"})
	add(Spec{Property: "C19", Name: "VerifC19_Match", Pkg: "alt",
		Quick: map[string]int{"LEAFKINDS": 4}, Thorough: map[string]int{"LEAFKINDS": 6},
		Covers: []string{"match", "nomatch"}, UnitDepth: 3,
		Note: "alt.Match(fingerprint, target) vs the reference on the same tree space"})
	// ---- C04: JSON writers
	add(Spec{Property: "C04", Name: "VerifC04_String", Pkg: "",
		Quick: map[string]int{"N": 3}, Thorough: map[string]int{"N": 3, "T": 1},
		Covers: []string{"escaped", "plain"}, UnitDepth: 3,
		Note: "ojg.AppendJSONString for every string of <= N bytes, HTML-safe on and off: output is one JSON string (reference decoder), decodes to the input with invalid UTF-8 replaced by U+FFFD, no raw < > & when HTML-safe, U+2028/9 escaped"})
	add(Spec{Property: "C04", Name: "VerifC04_Tree", Pkg: "asm",
		Quick: map[string]int{}, Thorough: map[string]int{"HTML": 1},
		Covers: []string{"done"}, UnitDepth: 6,
		Note: "oj.Writer.JSON on 10 tree shapes (depth <= 2) with leaves nil / symbolic bool / symbolic int64 (AppendInt contract stub) / symbolic string <= 2 bytes / 4 concrete floats, symbolic keys <= 2 bytes; Sort, OmitNil, OmitEmpty, HTMLUnsafe x {tight, Indent 2, Tab, symbolic Indent 1..70}: output decodes with the reference decoder to the input minus omitted members"})
	add(Spec{Property: "C04", Name: "VerifC04_Stream", Pkg: "asm",
		Quick: map[string]int{}, Thorough: map[string]int{"OMIT": 1},
		Covers: []string{"flushed-midway", "single-write"}, UnitDepth: 6,
		Note: "oj.Writer.Write into a recording io.Writer with symbolic WriteLimit in [1,48] vs MustJSON: identical bytes"})
	add(Spec{Property: "C04", Name: "VerifC04_Sort", Pkg: "asm",
		Quick: map[string]int{}, Thorough: map[string]int{},
		Covers: []string{"done"}, UnitDepth: 3,
		Note: "Sort: three distinct symbolic one-byte keys in every map iteration order give the same text, keys ascending, for in-memory JSON and streamed Write under tight / Indent 2 / Tab"})
	prettySpec := Spec{Name: "VerifPretty", Pkg: "asm",
		Quick: map[string]int{"PKINDS": 2, "NW": 3}, Thorough: map[string]int{"PKINDS": 2, "NEG": 1, "NW": 4},
		UnitDepth: 5,
		Note: "pretty.Writer.Marshal (JSON and SEN mode) on 12 tree shapes built for the alignment and line-breaking code (arrays of maps with different key sets, rows with a key that needs quotes in SEN, arrays of arrays, nesting to depth 3, empty containers, and two leaves nested 126..129 arrays deep, where the indentation reaches the end of the constant run of spaces) with symbolic leaves (int in [0,99] or nil; thorough: int in [-99,99] or nil), Width from {6,14,40} (thorough: also 1), MaxDepth 1..3, Align on/off: the text decodes (reference JSON decoder / the real sen.Parser) to the input tree"}
	{
		s := prettySpec
		s.Property, s.Asserts, s.Covers = "C04", []string{"no-panic", "json-"}, []string{"json"}
		add(s)
		s = prettySpec
		s.Property, s.Asserts, s.Covers = "C10", []string{"no-panic", "sen-"}, []string{"sen"}
		add(s)
	}
	// ---- C10: SEN writer / parser round trip
	add(Spec{Property: "C10", Name: "VerifC10_String", Pkg: "asm",
		Quick: map[string]int{"N": 2}, Thorough: map[string]int{"N": 3},
		Covers: []string{"done"}, UnitDepth: 4,
		Note: "every string of <= N bytes, and 7 multi-byte UTF-8 templates (2, 3 and 4 byte sequences with a free continuation byte, alone and between letters: covers U+2028/U+2029, U+FFFx, emoji), as top-level value, array element, object value and object key: sen.Parser.Parse(sen.Writer.SEN(v)) gives back v (invalid UTF-8 -> U+FFFD), HTMLUnsafe on and off"})
	add(Spec{Property: "C10", Name: "VerifC10_Tree", Pkg: "asm",
		Quick: map[string]int{}, Thorough: map[string]int{"OMIT": 1},
		Covers: []string{"done"}, UnitDepth: 5,
		Note: "the C04 tree shapes (symbolic bool / int64 / short string leaves and keys) through sen.Writer under Sort x {tight, Indent 2, Tab} and back through sen.Parser"})
	// ---- C17: streaming Match equals parse-then-locate
	add(Spec{Property: "C17", Name: "VerifC17_Match", Pkg: "asm",
		Quick: map[string]int{"NT": 2, "SPLIT": 0, "NT2LOADS": 1}, Thorough: map[string]int{"NT": 2, "SPLIT": 1, "NT2LOADS": 3},
		Covers: []string{"some", "none"}, UnitDepth: 5,
		Note: "oj.Match, oj.MatchLoad (1-byte reads; thorough: one symbolic split point), sen.Match and sen.MatchLoad (1-byte reads) on 5 concrete document skeletons (depth <= 3) with symbolic digit leaves and 1..NT targets (two targets: quick through oj.Match only, thorough through oj.Match, oj.MatchLoad with 1-byte reads and sen.Match) from 15 shapes (child, index, negative index, wildcard, descent, union, two unions in a row, slice, nested, trailing filter @.x > c below a child and below a wildcard) with symbolic indexes in [0,4]: the callback sequence equals the outermost locations of the reference selector on the parsed document, in document order, with equal values"})
	// ---- C18: generic / simple conversions
	add(Spec{Property: "C18", Name: "VerifC18_Convert", Pkg: "asm",
		Quick: map[string]int{}, Thorough: map[string]int{},
		Covers: []string{"done"}, UnitDepth: 4,
		Note: "Generify+Simplify, GenAlter+Alter, Dup, Decompose, Generify+Dup+Simplify, Alter on 7 shapes (depth <= 3, empty containers) with leaves nil / symbolic bool, int64, float64, string <= 2 bytes: exact (kind-preserving) tree equality, input unchanged, no container shared between input and output (engine heap identity), original unchanged after scribbling over the copy"})
	add(Spec{Property: "C18", Name: "VerifC18_MutateOriginal", Pkg: "asm",
		Quick: map[string]int{}, Thorough: map[string]int{},
		Covers: []string{"done"}, UnitDepth: 4,
		Note: "the copy is unchanged after every member of every container of the original is overwritten"})
	add(Spec{Property: "C18", Name: "VerifC18_GenDup", Pkg: "asm",
		Quick: map[string]int{}, Thorough: map[string]int{},
		Covers: []string{"done"}, UnitDepth: 4,
		Note: "gen.Node.Dup on the generified shapes: equal value, and scribbling over the duplicate (or the original) at the gen level leaves the other side unchanged"})
	add(Spec{Property: "C18", Name: "VerifC18_WriteGen", Pkg: "asm",
		Quick: map[string]int{}, Thorough: map[string]int{},
		Covers: []string{"done"}, UnitDepth: 4,
		Note: "oj.Writer output for a gen tree equals the output for its simple equivalent (Sort, tight and Indent 2)"})
	// ---- C20: assembly plans
	add(Spec{Property: "C20", Name: "VerifC20_Plan", Pkg: "asm",
		Quick: map[string]int{"ARITY": 2}, Thorough: map[string]int{"ARITY": 3},
		Covers: []string{"ok", "error"}, UnitDepth: 4,
		AllowUnsupported: []string{"formatted (fmt) string", "(reflect.Value)."},
		Note: "plans [set $.asm [fn args...]] for 19 functions (sum dif product quotient lt gt lte gte eq neq and or not size nth reverse append cond mod), arity 1..ARITY, argument kinds {symbolic int, $.src path to a symbolic int, nested [sum x 1], symbolic bool, symbolic 1-byte string, nil, concrete float}: no panic, deterministic, $.src unchanged, all-int / all-bool cells equal the documented result, String() -> sen.Parse -> NewPlan behaves the same"})
	add(Spec{Property: "C20", Name: "VerifC20_Strings", Pkg: "asm",
		Quick: map[string]int{}, Thorough: map[string]int{},
		Covers: []string{"true", "false"}, UnitDepth: 3,
		Note: "lt gt lte gte eq on 2..3 symbolic one-byte strings: true iff every argument relates to its successor"})
	add(Spec{Property: "C20", Name: "VerifC20_Equal", Pkg: "asm",
		Quick: map[string]int{}, Thorough: map[string]int{},
		Covers: []string{"true", "false"}, UnitDepth: 3,
		Note: "eq / neq on two containers under $.src (8 shapes: objects with null members and different key sets, arrays with nil, nested objects; symbolic int leaves): true iff the trees are equal (a null member is not an absent member)"})
	// ---- C07: reused and pooled instances behave like fresh ones
	add(Spec{Property: "C07", Name: "VerifC07_Reuse", Pkg: "asm",
		Quick: map[string]int{}, Thorough: map[string]int{},
		Covers: []string{"first-ok", "first-failed"}, UnitDepth: 5,
		AllowUnsupported: []string{"(reflect.Value).", "reflect."},
		Note: "two-call histories on oj.Parser, gen.Parser, sen.Parser, oj.Validator, oj.Tokenizer, sen.Tokenizer and the pooled oj.Parse / sen.Parse (sync.Pool contract stub: Get returns the instance Put last): first call = 11 state-setting prefixes + one symbolic byte (or two symbolic bytes) through Parse / ParseReader(1-byte reads) / Parse(NumConvFloat64) / Parse(callback) / Unmarshal; second call = 9 documents through Parse or ParseReader; compared with a fresh instance (error-ness, value, position), earlier result unchanged"})
	add(Spec{Property: "C07", Name: "VerifC07_Writers", Pkg: "asm",
		Quick: map[string]int{}, Thorough: map[string]int{"SLEN": 2, "KLEN": 2},
		Covers: []string{"done"}, UnitDepth: 4,
		Note: "two writes of C04 tree shapes (symbolic leaves) on one oj.Writer / sen.Writer or through the pooled oj.JSON, oj.Marshal, sen.String: the second text equals a fresh writer's, a Marshal result is not altered by the next call"})
	// ---- C02: parsed values denote the text
	add(Spec{Property: "C02", Name: "VerifC02_Strings", Pkg: "asm",
		Quick: map[string]int{"TEMPLATES": 6}, Thorough: map[string]int{"TEMPLATES": 8},
		Covers: []string{"done"}, UnitDepth: 4,
		Note: "string literals from 8 templates with symbolic content bytes (free bytes, escape letter, \\uXXXX with symbolic hex digits, surrogate pairs), as array element and as object key, through oj.Parse, oj.Tokenize+Builder, gen.Parse, sen.Parse vs the reference decoder"})
	add(Spec{Property: "C02", Name: "VerifC02_StringsChunked", Pkg: "asm",
		Quick: map[string]int{}, Thorough: map[string]int{},
		Covers: []string{"done"}, UnitDepth: 4,
		Note: "a document with two strings (the first through the escape path, the second one of 4 templates with symbolic content, escape letter or hex digits), as array elements and as member names, read by oj.ParseReader, oj.Tokenizer.Load, gen.ParseReader and sen.ParseReader with one split at every position: the second string decodes as the reference decoder says"})
	add(Spec{Property: "C02", Name: "VerifC02_Numbers", Pkg: "asm", Arith: true,
		Quick: map[string]int{"K1": 5, "K2": 3, "EXP": 2, "CTX": 2, "FE": 3, "F19": 2}, Thorough: map[string]int{"K1": 5, "K2": 3, "EXP": 3, "CTX": 2, "FE": 5, "F19": 2},
		Covers: []string{"int64", "float64"}, UnitDepth: 6,
		Note: "number literals -?I(.F)?(e..)? with every digit symbolic, digit counts I in {1,2,17,18,19}, F in {0,1,2} plus the two threshold shapes (1 digit).(19 digits) and (19 digits).(18 digits), exponent forms none / e1 (thorough: also E+12), standalone / array element, through oj.Parse, ParseReader(1-byte reads), Tokenizer.Parse (thorough: also sen.Parse and Tokenizer.Load 1-byte): int64 results are the literal exactly (strconv.FormatInt contract stub inverted to the input digits), float64 results are strconv.ParseFloat of a text with the same decimal denotation (nearest-float rounding trusted to strconv), json.Number text has the same denotation"})
	// ---- C08: sequential ownership lemma (partial)
	add(Spec{Property: "C08", Name: "VerifC08_Ownership", Pkg: "asm",
		Quick: map[string]int{}, Thorough: map[string]int{},
		Covers: []string{"done"}, UnitDepth: 3, MaxSteps: 40_000_000,
		AllowUnsupported: []string{"(reflect.Value).", "reflect."},
		Note: "SEQUENTIAL sufficient condition only (no interleavings are explored): two consecutive calls of 14 package-level / shared-expression APIs on private symbolic data (two of them with 70 KiB outputs so that the pooled buffer grows), the second call reusing the pooled instance of the first (sync.Pool stub: LIFO): the first result is not altered, the results share no storage (heap identity in the executor, pointer identity natively), Generify/Decompose results share nothing with their input, a shared jp.Expr is unchanged"})
	return r
}
