package run

// Registry lists every harness, per property.
func Registry() []*Spec {
	var r []*Spec
	add := func(s Spec) { c := s; r = append(r, &c) }

	// ---- strict JSON front-ends: C01 (language), C06 (no panic), C09 (positions)
	direct := Spec{Name: "VerifJSON_Direct", Pkg: "oj",
		Quick: map[string]int{"N": 3}, Thorough: map[string]int{"N": 5},
		Covers: []string{"accepted", "rejected", "incomplete"}, UnitDepth: 3,
		Note: "every byte string of length <= N through oj.Parser.Parse, Parser.ParseReader, Validator{OnlyOne}, Tokenizer{OnlyOne}, gen.Parser.Parse vs the RFC 8259 reference recogniser"}
	for _, pa := range []struct {
		prop    string
		asserts []string
	}{{"C01", []string{"accept-iff-valid"}}, {"C06", []string{"no-panic"}}, {"C09", []string{"pos"}}} {
		s := direct
		s.Property, s.Asserts = pa.prop, pa.asserts
		add(s)
	}
	// ---- C03: all front-ends agree, however the input is chunked
	add(Spec{Property: "C03", Name: "VerifC03_Chunked", Pkg: "asm",
		Quick: map[string]int{"N": 3}, Thorough: map[string]int{"N": 4, "ALLCOMP": 1},
		Covers: []string{"valid", "invalid"}, UnitDepth: 3,
		Note: "every byte string of length <= N; reader variants behind a chunking reader (every single split point and byte-by-byte; thorough: every composition); oj.Parse vs ParseReader, Tokenizer+Builder, Tokenizer.Load+Builder, gen.Parser(+Reader)+Simplify, Validator(+Reader), and sen.Parser for valid JSON"})
	return r
}
