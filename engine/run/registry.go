package run

// Registry lists every harness, per property.
func Registry() []*Spec {
	return []*Spec{
		{Property: "C01", Name: "VerifC01_Direct", Pkg: "oj",
			Quick: map[string]int{"N": 3}, Thorough: map[string]int{"N": 5},
			Covers: []string{"accepted", "rejected"}, UnitDepth: 3,
			Note: "every byte string of length <= N through oj.Parse vs the RFC 8259 reference recogniser"},
	}
}
