package run

import (
	"encoding/json"
	"os"
	"regexp"
)

// KnownFinding is one entry of /verif/known_findings.json.
type KnownFinding struct {
	Property    string            `json:"property"`
	ID          string            `json:"id"`
	Status      string            `json:"status"`            // "open" | "fixed"
	Harness     string            `json:"harness,omitempty"` // regexp on the harness name ("" = any)
	Assert      string            `json:"assert"`            // regexp on the assertion id
	Keys        map[string]string `json:"keys,omitempty"`    // key -> regexp; all must match
	Witness     string            `json:"witness,omitempty"`
	Description string            `json:"description"`
	Commit      string            `json:"commit,omitempty"`
}

type Known struct{ Entries []*KnownFinding }

func LoadKnown(path string) (*Known, error) {
	k := &Known{}
	b, err := os.ReadFile(path)
	if err != nil {
		if os.IsNotExist(err) {
			return k, nil
		}
		return nil, err
	}
	if err := json.Unmarshal(b, &k.Entries); err != nil {
		return nil, err
	}
	return k, nil
}

func full(re, s string) bool {
	m, err := regexp.MatchString("^(?:"+re+")$", s)
	return err == nil && m
}

// Match returns the open known finding covering f, if any. Fixed entries
// never match.
func (k *Known) Match(prop string, f *finding) *KnownFinding {
	for _, e := range k.Entries {
		if e.Status != "open" || e.Property != prop {
			continue
		}
		if e.Harness != "" && !full(e.Harness, f.Spec.Name) {
			continue
		}
		if !full(e.Assert, f.Fail.ID) {
			continue
		}
		ok := true
		for kk, re := range e.Keys {
			found := false
			for _, kv := range f.Fail.Keys {
				if kv.K == kk {
					found = true
					if !full(re, kv.V) {
						ok = false
					}
				}
			}
			if !found {
				ok = false
			}
		}
		if ok {
			return e
		}
	}
	return nil
}
