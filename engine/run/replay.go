package run

import (
	"bufio"
	"context"
	"encoding/json"
	"fmt"
	"os"
	"os/exec"
	"path/filepath"
	"sort"
	"strings"
	"time"

	"golang.org/x/tools/go/ssa"

	"verif/engine/load"
)

// nativeRun executes replay cases of one package natively through
// `go test -overlay` against the repository's current working tree.
func nativeRun(o *Options, prog *load.Program, pkgDir string, cases []ReplayCase, timeout time.Duration) (map[string]ReplayResult, error) {
	tmp, err := os.MkdirTemp("", "vreplay-")
	if err != nil {
		return nil, err
	}
	defer os.RemoveAll(tmp)
	pkgPath := load.Module
	if pkgDir != "" {
		pkgPath += "/" + pkgDir
	}
	pkg := prog.Pkgs[pkgPath]
	if pkg == nil {
		return nil, fmt.Errorf("package %s not loaded", pkgPath)
	}
	// generated test file listing every Verif* function of the package
	var names []string
	for name, m := range pkg.Members {
		if fn, ok := m.(*ssa.Function); ok && strings.HasPrefix(name, "Verif") && fn.Signature.Params().Len() == 0 && fn.Signature.Results().Len() == 0 {
			names = append(names, name)
		}
	}
	sort.Strings(names)
	var sb strings.Builder
	fmt.Fprintf(&sb, "package %s\n\nimport (\n\t\"testing\"\n\n\t\"%s/internal/vx\"\n)\n\nfunc TestVerifReplay(t *testing.T) {\n\tvx.ReplayMain(t, map[string]func(){\n", pkg.Pkg.Name(), load.Module)
	for _, n := range names {
		fmt.Fprintf(&sb, "\t\t%q: %s,\n", n, n)
	}
	sb.WriteString("\t})\n}\n")
	testFile := filepath.Join(tmp, "zz_verif_replay_test.go")
	if err := os.WriteFile(testFile, []byte(sb.String()), 0o644); err != nil {
		return nil, err
	}
	replace := map[string]string{}
	for virt := range prog.Overlay {
		// overlay content comes from files under <verif>/harness
		rel, _ := filepath.Rel(o.Repo, virt)
		src := filepath.Join(o.Verif, "harness", rel)
		if _, err := os.Stat(src); err != nil {
			src = filepath.Join(o.Verif, "harness", "root", rel)
		}
		replace[virt] = src
	}
	replace[filepath.Join(o.Repo, pkgDir, "zz_verif_replay_test.go")] = testFile
	ovb, _ := json.Marshal(map[string]any{"Replace": replace})
	ovFile := filepath.Join(tmp, "overlay.json")
	os.WriteFile(ovFile, ovb, 0o644)
	for i := range cases {
		if cases[i].ID == "" {
			cases[i].ID = fmt.Sprintf("c%d", i)
		}
	}
	cb, _ := json.Marshal(cases)
	caseFile := filepath.Join(tmp, "cases.json")
	os.WriteFile(caseFile, cb, 0o644)
	outFile := filepath.Join(tmp, "out.jsonl")
	results := map[string]ReplayResult{}
	// A case that hangs or crashes the process loses the cases after it:
	// re-run the remainder.
	remaining := cases
	for attempt := 0; attempt < 50 && len(remaining) > 0; attempt++ {
		cb, _ := json.Marshal(remaining)
		os.WriteFile(caseFile, cb, 0o644)
		os.Remove(outFile)
		ctx, cancel := context.WithTimeout(context.Background(), timeout)
		target := "./" + pkgDir
		if pkgDir == "" {
			target = "."
		}
		cmd := exec.CommandContext(ctx, "go", "test", "-vet=off", "-count=1", "-overlay", ovFile, "-run", "^TestVerifReplay$", "-timeout", "300s", target)
		cmd.Dir = o.Repo
		cmd.Env = append(os.Environ(), "VERIF_REPLAY="+caseFile, "VERIF_REPLAY_OUT="+outFile, "GOFLAGS=-mod=mod", "GOPROXY=off", "GOSUMDB=off", "GOTOOLCHAIN=local")
		out, runErr := cmd.CombinedOutput()
		cancel()
		n := 0
		if f, err := os.Open(outFile); err == nil {
			sc := bufio.NewScanner(f)
			sc.Buffer(make([]byte, 1<<20), 1<<26)
			for sc.Scan() {
				var r ReplayResult
				if json.Unmarshal(sc.Bytes(), &r) == nil {
					results[r.ID] = r
					n++
				}
			}
			f.Close()
		}
		if n >= len(remaining) {
			break
		}
		if n > 0 {
			// the native runner exits after a case that timed out (its result is written)
			if last, ok := results[remaining[n-1].ID]; ok && last.Timeout {
				remaining = remaining[n:]
				continue
			}
		}
		if runErr == nil && n == 0 {
			return results, fmt.Errorf("native replay produced no results: %s", tail(string(out), 2000))
		}
		// case number n killed the process (fatal error, hang or os.Exit)
		if n < len(remaining) {
			bad := remaining[n]
			if !strings.Contains(string(out), "TestVerifReplay") && !strings.Contains(string(out), "panic") && !strings.Contains(string(out), "fatal") && n == 0 && attempt == 0 && !strings.Contains(string(out), "timed out") && ctx.Err() == nil {
				return results, fmt.Errorf("native replay failed to build/run: %s", tail(string(out), 3000))
			}
			results[bad.ID] = ReplayResult{ID: bad.ID, Harness: bad.Harness, Failed: []string{"process-died"}, Panic: tail(string(out), 600), Timeout: strings.Contains(string(out), "timed out") || ctx.Err() != nil}
			remaining = remaining[n+1:]
		}
	}
	return results, nil
}

func tail(s string, n int) string {
	if len(s) > n {
		return s[len(s)-n:]
	}
	return s
}

// replayAll confirms findings natively and validates the translator on
// passing paths.
func replayAll(o *Options, prog *load.Program, all []*harnessStats, findings []*finding) error {
	byPkg := map[string][]ReplayCase{}
	fidx := map[string]*finding{}
	vidx := map[string]*validCase{}
	vhs := map[string]*harnessStats{}
	for i, f := range findings {
		c := mkCaseFromFailure(f)
		c.ID = fmt.Sprintf("f%d", i)
		fidx[c.ID] = f
		byPkg[f.Spec.Pkg] = append(byPkg[f.Spec.Pkg], c)
	}
	for _, hs := range all {
		for j, v := range hs.Validate {
			c := v.Case
			c.ID = fmt.Sprintf("v-%s-%d", hs.Spec.Name, j)
			vidx[c.ID] = v
			vhs[c.ID] = hs
			byPkg[hs.Spec.Pkg] = append(byPkg[hs.Spec.Pkg], c)
		}
	}
	outDir := filepath.Join(o.Verif, "out", "replay", o.Property)
	os.MkdirAll(outDir, 0o755)
	// Native map iteration order is random while the executor iterates in
	// insertion order: a finding that depends on the order may need several
	// native runs to show, and a passing path may fail natively under another
	// order. Cases that do not agree are re-run (up to 5 rounds); a finding is
	// confirmed if any run shows it, a validation case is accepted if any run
	// agrees with the executor.
	mismatch := map[string]string{} // validation case id -> last mismatch
	validated := map[string]bool{}
	for round := 0; round < 5; round++ {
		pending := 0
		for pkg, cases := range byPkg {
			var run []ReplayCase
			for _, c := range cases {
				if f := fidx[c.ID]; f != nil {
					if !f.Confirmed {
						run = append(run, c)
					}
				} else if !validated[c.ID] {
					run = append(run, c)
				}
			}
			if len(run) == 0 {
				continue
			}
			res, err := nativeRun(o, prog, pkg, run, 20*time.Minute)
			if err != nil {
				return err
			}
			for _, c := range run {
				r, ok := res[c.ID]
				if f := fidx[c.ID]; f != nil {
					f.Replayed = true
					if !ok {
						f.ReplayOut = "no result"
						pending++
						continue
					}
					f.ReplayOut = fmt.Sprintf("failed=%v panic=%q vacuous=%v missing=%v", r.Failed, tail(r.Panic, 200), r.Vacuous, r.Missing)
					for _, id := range r.Failed {
						if id == f.Fail.ID || (f.Fail.ID == "uncaught-panic" && id == "process-died") || id == "process-died" && (strings.Contains(f.Fail.ID, "panic") || strings.Contains(f.Fail.ID, "terminat")) || (id == "terminates" && f.Fail.ID == "terminates") {
							f.Confirmed = true
						}
					}
					// write the replay file for confirmed findings
					if f.Confirmed {
						c.Expect = f.Fail.ID
						file := filepath.Join(outDir, fmt.Sprintf("%s-%s.json", f.Spec.Name, hashStr(f.Sig)))
						wrap := map[string]any{"property": o.Property, "pkg": f.Spec.Pkg, "signature": f.Sig, "witness": witnessString(f.Fail), "case": c}
						b, _ := json.MarshalIndent(wrap, "", " ")
						os.WriteFile(file, b, 0o644)
						f.File = file
					} else {
						pending++
					}
					continue
				}
				v := vidx[c.ID]
				if v == nil {
					continue
				}
				hs := vhs[c.ID]
				bad := ""
				switch {
				case !ok:
					bad = c.ID + ": no native result"
				default:
					r.Failed = filterIDs(hs.Spec, r.Failed)
					if len(r.Failed) > 0 || r.Vacuous || len(r.Missing) > 0 {
						bad = fmt.Sprintf("%s: native run of a passing path: failed=%v vacuous=%v missing=%v panic=%q inputs=%v choices=%v", c.ID, r.Failed, r.Vacuous, r.Missing, tail(r.Panic, 200), c.Inputs, c.Choices)
					} else if len(r.Observed) != len(v.Observed) {
						bad = fmt.Sprintf("%s: %d native observations vs %d symbolic; inputs=%v choices=%v", c.ID, len(r.Observed), len(v.Observed), c.Inputs, c.Choices)
					} else {
						for k := range r.Observed {
							if v.Observed[k].Val == "?" {
								continue
							}
							if r.Observed[k][0] != v.Observed[k].Tag || r.Observed[k][1] != v.Observed[k].Val {
								bad = fmt.Sprintf("%s: observation %s native=%s engine=%s inputs=%v choices=%v", c.ID, v.Observed[k].Tag, r.Observed[k][1], v.Observed[k].Val, c.Inputs, c.Choices)
								break
							}
						}
					}
				}
				if bad == "" {
					validated[c.ID] = true
					delete(mismatch, c.ID)
					hs.Validated++
				} else {
					mismatch[c.ID] = bad
					pending++
				}
			}
		}
		if pending == 0 {
			break
		}
	}
	for id, m := range mismatch {
		vhs[id].ValidMismatch = append(vhs[id].ValidMismatch, m)
	}
	return nil
}

func mkCaseFromFailure(f *finding) ReplayCase {
	c := ReplayCase{Harness: f.Spec.Name, Inputs: map[string]uint64{}, Params: f.Params}
	for _, in := range f.Fail.Inputs {
		c.Inputs[in.Name] = in.Val
	}
	for _, ch := range f.Fail.Choices {
		c.Choices = append(c.Choices, ch.Val)
	}
	c.Expect = f.Fail.ID
	return c
}

// replayFile re-runs a stored counterexample natively; exit 1 iff it still fails.
func replayFile(o *Options) (int, error) {
	b, err := os.ReadFile(o.Replay)
	if err != nil {
		return 2, err
	}
	var wrap struct {
		Property string     `json:"property"`
		Pkg      string     `json:"pkg"`
		Case     ReplayCase `json:"case"`
	}
	if err := json.Unmarshal(b, &wrap); err != nil {
		return 2, err
	}
	overlay, err := load.BuildOverlay(o.Repo, filepath.Join(o.Verif, "harness"))
	if err != nil {
		return 2, err
	}
	pat := "./" + wrap.Pkg
	if wrap.Pkg == "" {
		pat = "."
	}
	prog, err := load.Load(o.Repo, overlay, []string{pat})
	if err != nil {
		return 2, err
	}
	res, err := nativeRun(o, prog, wrap.Pkg, []ReplayCase{wrap.Case}, 10*time.Minute)
	if err != nil {
		return 2, err
	}
	for _, r := range res {
		fmt.Printf("native replay: failed=%v panic=%q vacuous=%v\n", r.Failed, r.Panic, r.Vacuous)
		for _, id := range r.Failed {
			if id == wrap.Case.Expect || id == "process-died" {
				fmt.Printf("VIOLATION property=%s replay=%s\n", wrap.Property, o.Replay)
				return 1, nil
			}
		}
	}
	fmt.Println("counterexample does not reproduce")
	return 0, nil
}

// filterIDs keeps the assertion ids that belong to the spec's property.
func filterIDs(s *Spec, ids []string) []string {
	if len(s.Asserts) == 0 {
		return ids
	}
	var out []string
	for _, id := range ids {
		keep := id == "uncaught-panic" || id == "process-died"
		for _, p := range s.Asserts {
			if strings.HasPrefix(id, p) {
				keep = true
			}
		}
		if keep {
			out = append(out, id)
		}
	}
	return out
}
