// Package run drives the checks: harness registry, work sharing, native
// replay of counterexamples, known-findings matching and evidence.
package run

import (
	"encoding/json"
	"fmt"
	"hash/fnv"
	"os"
	"path/filepath"
	"sort"
	"strconv"
	"strings"
	"sync"
	"time"

	"golang.org/x/tools/go/ssa"

	"verif/engine/exec"
	"verif/engine/load"
	"verif/engine/solver"
)

type Options struct {
	Property string
	Tier     string
	Repo     string
	Verif    string
	Harness  string
	Replay   string
	Workers  int
	Verbose  bool
	SelfTest bool
	NoReplay bool
	MaxPaths int
	// self-test only: do not write the evidence file, do not print verdict lines
	NoEvidence bool
	Quiet      bool
	Summary  bool
	Seed     int64
}

// Spec describes one harness of a property.
type Spec struct {
	Property string
	Name     string         // harness function name
	Pkg      string         // package dir relative to the module root ("oj", "jp", "" for root)
	Quick    map[string]int // vx.Param values per tier
	Thorough map[string]int
	Covers   []string // required reachability witnesses
	// AllowUnsupported lists substrings of "unsupported" path ends that are
	// declared exclusions (outside the claim) for this harness.
	AllowUnsupported []string
	UnitDepth        int  // decisions in a work-unit prefix (default 2)
	PoolFork         bool // sync.Pool.Get forks over every earlier Put
	MaxSteps         int
	Note             string // what the harness encodes (goes to evidence)
	QuickOnly        bool
	Arith            bool     // decimal / index arithmetic: z3 gets a short timeout and cvc5 (integer blasting) decides what it leaves open
	HangCheck        bool     // a path over the step budget is a 'terminates' failure (confirmed natively under a timeout)
	Asserts          []string // assertion-id prefixes that belong to this property (nil = all)
	ThoroughOnly     bool
}

func (s *Spec) pkgPath() string {
	if s.Pkg == "" {
		return load.Module
	}
	return load.Module + "/" + s.Pkg
}

// unit is one work unit: a forced decision prefix.
type unit struct {
	prefix []exec.PrefixEntry
}

// finding is a deduplicated assertion failure.
type finding struct {
	Spec      *Spec
	Fail      exec.Failure
	Sig       string
	Count     int
	Confirmed bool
	Replayed  bool
	Known     *KnownFinding
	ReplayOut string
	File      string
	Params    map[string]int
}

// harnessStats aggregates one harness run.
type harnessStats struct {
	Spec          *Spec
	Paths         int64
	Steps         int64
	Units         int
	Ends          map[string]int64
	Unsupported   map[string]int64
	Inconclusive  []string
	Covers        map[string]bool
	Findings      map[string]*finding
	AssertsSeen   int64
	AssertQ       int64
	FeasQ         int64
	FallbackQ     int64
	FallbackTime  time.Duration
	ModelHits     int64
	Solver        solver.Stats
	Funcs         map[string]bool
	Samples       []sample
	Validate      []*validCase
	Validated     int
	ValidMismatch []string
	Wall          time.Duration
	Params        map[string]int
}

type sample struct {
	Harness string            `json:"harness"`
	Choices []string          `json:"choices,omitempty"`
	Inputs  map[string]uint64 `json:"inputs,omitempty"`
	Keys    map[string]string `json:"keys,omitempty"`
	End     string            `json:"end"`
	Covers  []string          `json:"covers,omitempty"`
}

type validCase struct {
	Case     ReplayCase
	Observed []exec.ObservedVal
}

// ReplayCase mirrors vx.Case.
type ReplayCase struct {
	Harness string            `json:"harness"`
	Inputs  map[string]uint64 `json:"inputs"`
	Choices []int             `json:"choices"`
	Params  map[string]int    `json:"params,omitempty"`
	Expect  string            `json:"expect,omitempty"`
	ID      string            `json:"id,omitempty"`
}

type ReplayResult struct {
	ID       string      `json:"id"`
	Harness  string      `json:"harness"`
	Failed   []string    `json:"failed"`
	Observed [][2]string `json:"observed"`
	Covers   []string    `json:"covers"`
	Panic    string      `json:"panic,omitempty"`
	Vacuous  bool        `json:"vacuous,omitempty"`
	Missing  []string    `json:"missing,omitempty"`
	Timeout  bool        `json:"timeout,omitempty"`
}

func Main(o *Options) (int, error) {
	if v := os.Getenv("VERIF_SEED"); v != "" {
		o.Seed, _ = strconv.ParseInt(v, 10, 64)
	}
	if v := os.Getenv("VERIF_TIER"); v != "" && o.Tier == "" {
		o.Tier = v
	}
	if o.Tier != "quick" && o.Tier != "thorough" {
		return 2, fmt.Errorf("bad tier %q", o.Tier)
	}
	os.Setenv("GOFLAGS", "-mod=mod")
	os.Setenv("GOPROXY", "off")
	os.Setenv("GOSUMDB", "off")
	os.Setenv("GOTOOLCHAIN", "local")
	if o.Replay != "" {
		return replayFile(o)
	}
	if o.SelfTest {
		return selfTest(o)
	}
	if o.Property == "" && o.Harness == "" {
		return 2, fmt.Errorf("need -p or -harness")
	}
	var specs []*Spec
	for _, s := range Registry() {
		if o.Harness != "" {
			if s.Name == o.Harness {
				specs = append(specs, s)
			}
			continue
		}
		if s.Property != o.Property {
			continue
		}
		if o.Tier == "quick" && s.ThoroughOnly || o.Tier == "thorough" && s.QuickOnly {
			continue
		}
		specs = append(specs, s)
	}
	if len(specs) == 0 {
		return 2, fmt.Errorf("no harness registered for %s%s", o.Property, o.Harness)
	}
	if o.Property == "" {
		o.Property = specs[0].Property
	}
	return runProperty(o, specs)
}

func runProperty(o *Options, specs []*Spec) (int, error) {
	t0 := time.Now()
	overlay, err := load.BuildOverlay(o.Repo, filepath.Join(o.Verif, "harness"))
	if err != nil {
		return 2, err
	}
	pats := map[string]bool{}
	for _, s := range specs {
		if s.Pkg == "" {
			pats["."] = true
		} else {
			pats["./"+s.Pkg] = true
		}
	}
	var patterns []string
	for p := range pats {
		patterns = append(patterns, p)
	}
	sort.Strings(patterns)
	prog, err := load.Load(o.Repo, overlay, patterns)
	if err != nil {
		return 2, err
	}
	loadDur := time.Since(t0)
	if o.Verbose {
		fmt.Fprintf(os.Stderr, "loaded %d packages in %v\n", len(prog.Pkgs), loadDur)
	}
	known, err := LoadKnown(filepath.Join(o.Verif, "known_findings.json"))
	if err != nil {
		return 2, err
	}
	var all []*harnessStats
	for _, s := range specs {
		hs, err := runHarness(o, prog, s)
		if err != nil {
			return 2, fmt.Errorf("harness %s: %v", s.Name, err)
		}
		all = append(all, hs)
	}
	// native replay of findings and validation samples
	var findings []*finding
	for _, hs := range all {
		for _, f := range hs.Findings {
			findings = append(findings, f)
		}
	}
	sort.Slice(findings, func(i, j int) bool { return findings[i].Sig < findings[j].Sig })
	inconclusive := []string{}
	if !o.NoReplay {
		if err := replayAll(o, prog, all, findings); err != nil {
			inconclusive = append(inconclusive, "native replay failed: "+err.Error())
		}
	}
	// verdicts
	violations := 0
	knownHit := map[string]bool{}
	var lines []string
	for _, f := range findings {
		if !o.NoReplay && !f.Confirmed {
			if f.Replayed {
				inconclusive = append(inconclusive, fmt.Sprintf("counterexample of %s/%s did not reproduce natively (%s): engine or harness defect", f.Spec.Name, f.Fail.ID, f.ReplayOut))
			}
			continue
		}
		kf := known.Match(o.Property, f)
		if kf != nil {
			f.Known = kf
			if !knownHit[kf.ID] {
				knownHit[kf.ID] = true
				lines = append(lines, fmt.Sprintf("KNOWN-FINDING: property=%s %s [%s] %s", o.Property, kf.ID, f.Sig, kf.Description))
			}
			continue
		}
		violations++
		if o.Summary {
			lines = append(lines, fmt.Sprintf("V %s  %s", f.Sig, witnessString(f.Fail)))
			continue
		}
		lines = append(lines, fmt.Sprintf("VIOLATION property=%s replay=%s", o.Property, f.File))
		lines = append(lines, fmt.Sprintf("  signature: %s  witness: %s  detail: %s", f.Sig, witnessString(f.Fail), f.Fail.Detail))
	}
	for _, hs := range all {
		for _, m := range hs.Inconclusive {
			inconclusive = append(inconclusive, hs.Spec.Name+": "+m)
		}
		for _, c := range hs.Spec.Covers {
			if !hs.Covers[c] {
				inconclusive = append(inconclusive, fmt.Sprintf("%s: required cover %q has no witness (vacuity guard)", hs.Spec.Name, c))
			}
		}
		for _, m := range hs.ValidMismatch {
			inconclusive = append(inconclusive, hs.Spec.Name+": translator validation mismatch: "+m)
		}
	}
	wall := time.Since(t0)
	if o.Quiet {
		return 0, nil
	}
	for _, l := range lines {
		fmt.Println(l)
	}
	if !o.NoEvidence {
		if err := writeEvidence(o, all, findings, violations, inconclusive, wall); err != nil {
			return 2, err
		}
	}
	for _, hs := range all {
		fmt.Printf("%s: paths=%d steps=%d units=%d asserts=%d assert-queries=%d feas-queries=%d model-hits=%d findings=%d validated=%d wall=%.1fs solver=%.1fs cvc5-fallback=%d/%.1fs ends=%v\n",
			hs.Spec.Name, hs.Paths, hs.Steps, hs.Units, hs.AssertsSeen, hs.AssertQ, hs.FeasQ, hs.ModelHits, len(hs.Findings), hs.Validated, hs.Wall.Seconds(), hs.Solver.Time.Seconds(), hs.FallbackQ, hs.FallbackTime.Seconds(), hs.Ends)
	}
	if violations > 0 {
		return 1, nil
	}
	if len(inconclusive) > 0 {
		for _, m := range inconclusive {
			fmt.Fprintln(os.Stderr, "INCONCLUSIVE:", m)
		}
		return 2, nil
	}
	fmt.Printf("OK property=%s tier=%s wall=%.1fs\n", o.Property, o.Tier, wall.Seconds())
	return 0, nil
}

func witnessString(f exec.Failure) string {
	var parts []string
	for _, c := range f.Choices {
		parts = append(parts, fmt.Sprintf("%s=%d", c.Tag, c.Val))
	}
	// group byte inputs by tag
	byTag := map[string][]byte{}
	var order []string
	for _, in := range f.Inputs {
		if in.Bits == 8 {
			tag := in.Name[:strings.LastIndex(in.Name[:strings.LastIndex(in.Name, "_")], "_")]
			if _, ok := byTag[tag]; !ok {
				order = append(order, tag)
			}
			byTag[tag] = append(byTag[tag], byte(in.Val))
		} else {
			parts = append(parts, fmt.Sprintf("%s=%d", in.Name, int64(in.Val)))
		}
	}
	for _, t := range order {
		parts = append(parts, fmt.Sprintf("%s=%q", t, byTag[t]))
	}
	return strings.Join(parts, " ")
}

func sigOf(s *Spec, f exec.Failure) string {
	var kv []string
	for _, k := range f.Keys {
		kv = append(kv, k.K+"="+k.V)
	}
	return fmt.Sprintf("%s/%s{%s}", s.Name, f.ID, strings.Join(kv, ","))
}

func hashStr(s string) string {
	h := fnv.New64a()
	h.Write([]byte(s))
	return fmt.Sprintf("%012x", h.Sum64()&0xffffffffffff)
}

// runHarness explores one harness with a pool of workers.
func runHarness(o *Options, prog *load.Program, s *Spec) (*harnessStats, error) {
	t0 := time.Now()
	hs := &harnessStats{Spec: s, Ends: map[string]int64{}, Unsupported: map[string]int64{}, Covers: map[string]bool{},
		Findings: map[string]*finding{}, Funcs: map[string]bool{}}
	pkg := prog.Pkgs[s.pkgPath()]
	if pkg == nil {
		return nil, fmt.Errorf("package %s not loaded", s.pkgPath())
	}
	fn := pkg.Func(s.Name)
	if fn == nil {
		return nil, fmt.Errorf("function %s not found in %s", s.Name, s.pkgPath())
	}
	params := s.Quick
	if o.Tier == "thorough" && s.Thorough != nil {
		params = s.Thorough
	}
	hs.Params = params
	depth := s.UnitDepth
	if depth == 0 {
		depth = 2
	}
	nw := o.Workers
	if nw < 1 {
		nw = 1
	}
	var mu sync.Mutex
	coverDone := func(id string) bool {
		mu.Lock()
		defer mu.Unlock()
		return hs.Covers[id]
	}
	newExec := func() (*exec.Exec, error) {
		ex, err := exec.New(prog.Prog)
		if err != nil {
			return nil, err
		}
		configure(ex, s, params)
		ex.CoverDone = coverDone
		if err := ex.InitGlobals([]*ssa.Package{pkg}); err != nil {
			ex.Close()
			return nil, err
		}
		return ex, nil
	}
	// 1. enumerate work units
	ex0, err := newExec()
	if err != nil {
		return nil, err
	}
	var units []unit
	merge := func(ex *exec.Exec, res *exec.PathResult) {
		mu.Lock()
		defer mu.Unlock()
		if os.Getenv("VERIF_DEBUG") != "" {
			fmt.Fprintf(os.Stderr, "path end=%s detail=%s choices=%s steps=%d inputs=%v\n", res.End, res.Detail, choiceStr(res.Choices), res.Steps, res.Inputs)
		}
		hs.Paths++
		hs.Steps += int64(res.Steps)
		hs.Ends[res.End]++
		hs.AssertsSeen += int64(res.AssertsSeen)
		hs.AssertQ += int64(res.AssertQ)
		for _, c := range res.Covers {
			hs.Covers[c] = true
		}
		switch res.End {
		case "unsupported":
			allowed := false
			for _, a := range s.AllowUnsupported {
				if strings.Contains(res.Detail, a) {
					allowed = true
				}
			}
			hs.Unsupported[res.Detail]++
			if !allowed && hs.Unsupported[res.Detail] == 1 {
				hs.Inconclusive = append(hs.Inconclusive, "unsupported: "+res.Detail+" ["+choiceStr(res.Choices)+"]")
			}
		case "budget", "internal", "solver":
			if len(hs.Inconclusive) < 20 {
				hs.Inconclusive = append(hs.Inconclusive, res.End+": "+res.Detail+" ["+choiceStr(res.Choices)+"]")
			}
		}
		for _, f := range res.Failures {
			sig := sigOf(s, f)
			if old, ok := hs.Findings[sig]; ok {
				old.Count++
				continue
			}
			hs.Findings[sig] = &finding{Spec: s, Fail: f, Sig: sig, Count: 1, Params: params}
		}
		if res.End == "ok" || res.End == "stop" || res.End == "panic" {
			if len(hs.Samples) < 5 && res.Inputs != nil {
				hs.Samples = append(hs.Samples, mkSample(s, res))
			}
			// validation candidates: reservoir by hash
			if res.End == "ok" && len(res.Failures) == 0 && res.Inputs != nil {
				limit := 24
				if o.Tier == "thorough" {
					limit = 96
				}
				vc := &validCase{Case: mkCase(s, params, res.Inputs, res.Choices), Observed: res.Observed}
				if len(hs.Validate) < limit {
					hs.Validate = append(hs.Validate, vc)
				} else {
					h := fnv.New32a()
					fmt.Fprintf(h, "%d-%d", o.Seed, hs.Paths)
					if int(h.Sum32()%uint32(hs.Paths)) < limit {
						hs.Validate[int(h.Sum32())%limit] = vc
					}
				}
			}
		}
	}
	ex0.SetCutDepth(depth)
	ex0.SetPrefix(nil)
	for {
		res := ex0.RunPath(fn)
		if res.End == "stop" && res.Detail == "cut" {
			units = append(units, unit{prefix: ex0.Prefix()})
		} else if !(res.End == "stop" && res.Detail == "enum-exhausted") {
			merge(ex0, res)
		}
		if res.End == "solver" || res.End == "internal" {
			break // fatal for the exploration: reported as inconclusive
		}
		if !ex0.NextPath() {
			break
		}
	}
	ex0.SetCutDepth(0)
	if only := os.Getenv("VERIF_ONLY"); only != "" {
		var keep []unit
		for _, u := range units {
			if strings.HasPrefix(prefixStr(u.prefix), only) {
				keep = append(keep, u)
			}
		}
		units = keep
	}
	hs.Units = len(units)
	if o.Verbose {
		fmt.Fprintf(os.Stderr, "%s: %d work units (depth %d), %d paths finished during enumeration\n", s.Name, len(units), depth, hs.Paths)
	}
	// 2. run units
	ch := make(chan unit, len(units))
	for _, u := range units {
		ch <- u
	}
	close(ch)
	var wg sync.WaitGroup
	active := map[*exec.Exec]string{}
	if o.Verbose {
		tick := time.NewTicker(15 * time.Second)
		defer tick.Stop()
		go func() {
			for range tick.C {
				mu.Lock()
				var act []string
				for _, a := range active {
					act = append(act, a)
				}
				sort.Strings(act)
				fmt.Fprintf(os.Stderr, "[%s] paths=%d queue=%d active=%v\n", s.Name, hs.Paths, len(ch), act)
				mu.Unlock()
			}
		}()
	}
	execs := []*exec.Exec{ex0}
	var werr error
	stop := false
	worker := func(ex *exec.Exec) {
		defer wg.Done()
		for u := range ch {
			mu.Lock()
			active[ex] = prefixStr(u.prefix)
			mu.Unlock()
			ex.SetPrefix(u.prefix)
			for {
				res := ex.RunPath(fn)
				if !(res.End == "stop" && res.Detail == "enum-exhausted") {
					merge(ex, res)
				}
				mu.Lock()
				st := stop || (o.MaxPaths > 0 && hs.Paths >= int64(o.MaxPaths))
				mu.Unlock()
				if st || res.End == "solver" || res.End == "internal" || !ex.NextPath() {
					break
				}
			}
		}
	}
	if len(units) > 0 {
		if nw > len(units) {
			nw = len(units)
		}
		for i := 1; i < nw; i++ {
			ex, err := newExec()
			if err != nil {
				werr = err
				break
			}
			execs = append(execs, ex)
		}
		for _, ex := range execs {
			wg.Add(1)
			go worker(ex)
		}
		wg.Wait()
	}
	for _, ex := range execs {
		st := ex.SolverStats()
		hs.Solver.Queries += st.Queries
		hs.Solver.Sat += st.Sat
		hs.Solver.Unsat += st.Unsat
		hs.Solver.Unknown += st.Unknown
		hs.Solver.Errors += st.Errors
		hs.Solver.Time += st.Time
		hs.FeasQ += ex.FeasQueries
		hs.FallbackQ += ex.FallbackQueries
		hs.Solver.Unknown -= ex.FallbackResolved
		hs.FallbackTime += ex.FallbackTime
		hs.ModelHits += ex.ModelHits
		for f := range ex.FuncsTouched {
			hs.Funcs[f.String()] = true
		}
		ex.Close()
	}
	if hs.Solver.Errors > 0 || hs.Solver.Unknown > 0 {
		hs.Inconclusive = append(hs.Inconclusive, fmt.Sprintf("solver errors=%d unknown=%d", hs.Solver.Errors, hs.Solver.Unknown))
	}
	hs.Wall = time.Since(t0)
	return hs, werr
}

func prefixStr(p []exec.PrefixEntry) string {
	var parts []string
	for _, e := range p {
		if e.Tag != "" {
			parts = append(parts, fmt.Sprintf("%s=%d", e.Tag, e.Opt))
		} else if e.Enum {
			parts = append(parts, fmt.Sprintf("#%d", e.Val))
		} else {
			parts = append(parts, fmt.Sprintf("?%d", e.Opt))
		}
	}
	return strings.Join(parts, ",")
}

func choiceStr(cs []exec.ChoiceRec) string {
	var p []string
	for _, c := range cs {
		p = append(p, fmt.Sprintf("%s=%d", c.Tag, c.Val))
	}
	return strings.Join(p, " ")
}

func configure(ex *exec.Exec, s *Spec, params map[string]int) {
	ex.Params = params
	if len(s.Asserts) > 0 {
		pre := s.Asserts
		ex.AssertFilter = func(id string) bool {
			if id == "uncaught-panic" {
				return true
			}
			for _, p := range pre {
				if strings.HasPrefix(id, p) {
					return true
				}
			}
			return false
		}
	}
	ex.PoolFork = s.PoolFork
	ex.HangAsFailure = s.HangCheck
	if s.Arith {
		ex.ArithFallback = true
		ex.SetSolverTimeout(1500)
	}
	if s.MaxSteps > 0 {
		ex.MaxSteps = s.MaxSteps
	}
	for _, p := range skipInitPkgs {
		ex.SkipInit[p] = true
	}
}

// Packages whose initialisers are not executed (their globals written by
// init are poisoned: any use makes the path inconclusive).
var skipInitPkgs = []string{
	"runtime", "os", "syscall", "time", "reflect", "internal/poll", "internal/syscall/unix", "internal/testlog",
	"internal/cpu", "internal/godebug", "internal/godebugs", "io/fs", "path", "internal/oserror", "internal/reflectlite",
	"sync", "sync/atomic", "internal/bytealg", "internal/abi", "internal/goarch", "internal/goos", "runtime/debug",
	"internal/race", "unsafe", "internal/itoa", "internal/fmtsort", "regexp", "regexp/syntax", "encoding/base64",
	"encoding/json", "encoding", "math/big", "math/rand", "internal/chacha8rand", "internal/byteorder", "crypto/rand",
	"testing", "flag", "bufio", "context", "log", "internal/safefilepath", "internal/filepathlite", "path/filepath",
	"internal/sysinfo", "runtime/trace", "runtime/pprof", "text/tabwriter", "compress/gzip", "internal/asan", "internal/msan",
	"internal/stringslite", "iter", "internal/profilerecord", "internal/runtime/atomic", "internal/runtime/exithook",
	"internal/runtime/syscall", "runtime/internal/atomic", "runtime/internal/math", "runtime/internal/sys", "runtime/internal/syscall",
	"internal/coverage/rtcov", "internal/goexperiment", "internal/unsafeheader", "hash/crc32", "hash", "encoding/binary", "math/bits",
	"internal/concurrent", "unique", "internal/weak", "errors",
}

func mkCase(s *Spec, params map[string]int, inputs []exec.InputVal, choices []exec.ChoiceRec) ReplayCase {
	c := ReplayCase{Harness: s.Name, Inputs: map[string]uint64{}, Params: params}
	for _, in := range inputs {
		c.Inputs[in.Name] = in.Val
	}
	for _, ch := range choices {
		c.Choices = append(c.Choices, ch.Val)
	}
	return c
}

func mkSample(s *Spec, res *exec.PathResult) sample {
	sm := sample{Harness: s.Name, End: res.End, Inputs: map[string]uint64{}, Keys: map[string]string{}, Covers: res.Covers}
	for _, c := range res.Choices {
		sm.Choices = append(sm.Choices, fmt.Sprintf("%s=%d", c.Tag, c.Val))
	}
	for _, in := range res.Inputs {
		sm.Inputs[in.Name] = in.Val
	}
	for _, k := range res.Keys {
		sm.Keys[k.K] = k.V
	}
	return sm
}

var _ = json.Marshal
