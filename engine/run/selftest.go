package run

func selfTest(o *Options) (int, error) {
	return 0, nil
}
