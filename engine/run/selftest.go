package run

import (
	"fmt"
	"sync"
	"time"

	"verif/engine/exec"
	"verif/engine/solver"
)

// selfTest cross-checks the SMT encoding between solvers: a sample of the
// queries the executor really sends (path condition + branch or negated
// assertion, taken from a prefix of four harnesses) is rendered as standalone
// scripts and decided again by z3 4.8.12, z3 5.1.0 and cvc5 1.0 as one-shot
// processes. Every definite answer must equal the verdict of the incremental
// z3 session, and at least two solvers must answer each query. Nothing is
// written to the evidence directory.
func selfTest(o *Options) (int, error) {
	type smp struct {
		harness string
		script  string
		res     solver.Result
	}
	var mu sync.Mutex
	var samples []smp
	cur := ""
	per := 0
	exec.SampleEvery = 37
	exec.SampleHook = func(script string, r solver.Result) {
		mu.Lock()
		defer mu.Unlock()
		if per < 60 {
			per++
			samples = append(samples, smp{cur, script, r})
		}
	}
	for _, h := range []struct {
		name  string
		paths int
	}{{"VerifJSON_Direct", 3000}, {"VerifC05_Get", 600}, {"VerifC04_Stream", 300}, {"VerifC14_Keys", 600}, {"VerifC02_Strings", 300}} {
		o2 := *o
		o2.Harness, o2.Property, o2.MaxPaths, o2.NoReplay, o2.NoEvidence, o2.Tier = h.name, "", h.paths, true, true, "quick"
		mu.Lock()
		cur, per = h.name, 0
		mu.Unlock()
		var specs []*Spec
		for _, s := range Registry() {
			if s.Name == h.name {
				specs = append(specs, s)
				break
			}
		}
		o2.Property = specs[0].Property
		o2.Quiet = true
		if code, err := runProperty(&o2, specs); err != nil || code == 1 {
			return 2, fmt.Errorf("selftest: harness %s: code %d %v", h.name, code, err)
		}
	}
	exec.SampleHook = nil
	nsat := 0
	for _, s := range samples {
		if s.res == solver.Sat {
			nsat++
		}
	}
	fmt.Printf("selftest: %d sampled queries (%d sat, %d unsat by incremental z3)\n", len(samples), nsat, len(samples)-nsat)
	solvers := []solver.OneShot{solver.Z3Old, solver.Z3New, solver.CVC5}
	type out struct {
		i       int
		answers int
		bad     string
		dur     time.Duration
	}
	ch := make(chan out, len(samples))
	sem := make(chan bool, 8)
	for i, s := range samples {
		i, s := i, s
		sem <- true
		go func() {
			defer func() { <-sem }()
			t0 := time.Now()
			script := "(set-logic ALL)\n" + s.script + "(check-sat)\n"
			r := out{i: i}
			for _, sv := range solvers {
				sr := solver.RunOneShot(sv, script, 20*time.Second)
				if sr.Err != nil {
					r.bad = fmt.Sprintf("%s: %v", sv.Name, sr.Err)
					continue
				}
				if sr.Res == solver.Unknown {
					continue
				}
				r.answers++
				if sr.Res != s.res {
					r.bad = fmt.Sprintf("%s answers %v, incremental z3 answered %v", sv.Name, sr.Res, s.res)
				}
			}
			r.dur = time.Since(t0)
			ch <- r
		}()
	}
	bad, thin := 0, 0
	per3 := map[string]int{}
	for range samples {
		r := <-ch
		per3[samples[r.i].harness]++
		if r.bad != "" {
			bad++
			fmt.Printf("selftest: DISAGREEMENT on a query of %s: %s\n", samples[r.i].harness, r.bad)
		}
		if r.answers < 2 {
			thin++
		}
	}
	fmt.Printf("selftest: per harness %v; %d disagreements; %d queries answered by fewer than two solvers within 20 s\n", per3, bad, thin)
	if bad > 0 || len(samples) == 0 || thin > len(samples)/4 {
		return 2, nil
	}
	fmt.Println("OK selftest")
	return 0, nil
}
