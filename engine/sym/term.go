// Package sym implements the hash-consed term DAG used by the symbolic
// executor: booleans, bit-vectors (Go's wrapping integers, and wide
// bit-vectors used as ideal integers in specifications) and IEEE floats.
// Constants are folded eagerly so that concrete code never produces a
// non-constant term.
package sym

import (
	"fmt"
	"math"
	"math/big"
	"math/bits"
)

type Kind uint8

const (
	KBool Kind = iota
	KBV
	KFP
)

// Sort is a term sort: Bool, (_ BitVec W) or (_ FloatingPoint) of width W (32/64).
type Sort struct {
	K Kind
	W uint16
}

var Bool = Sort{KBool, 1}

func BV(w int) Sort { return Sort{KBV, uint16(w)} }
func FP(w int) Sort { return Sort{KFP, uint16(w)} }

func (s Sort) String() string {
	switch s.K {
	case KBool:
		return "Bool"
	case KBV:
		return fmt.Sprintf("(_ BitVec %d)", s.W)
	default:
		if s.W == 32 {
			return "(_ FloatingPoint 8 24)"
		}
		return "(_ FloatingPoint 11 53)"
	}
}

type Op uint8

const (
	OConst Op = iota
	OVar
	ONot
	OAnd
	OOr
	OIte
	OEq
	OAdd
	OSub
	OMul
	OUDiv
	OURem
	OSDiv
	OSRem
	OBAnd
	OBOr
	OBXor
	OBNot
	ONeg
	OShl
	OLShr
	OAShr
	OULt
	OULe
	OSLt
	OSLe
	OZExt
	OSExt
	OExtract // Aux = hi<<16|lo
	OConcat
	OSelect // Aux = table id, Args[0] = index (BV n bits)
	OFAdd
	OFSub
	OFMul
	OFDiv
	OFNeg
	OFEq
	OFLt
	OFLe
	OFIsNaN
	OSIToFP
	OUIToFP
	OFPToSI // RTZ
	OFPToUI
	OFPToFP
	OBitsToFP
	OFAbs
)

var opNames = map[Op]string{
	ONot: "not", OAnd: "and", OOr: "or", OIte: "ite", OEq: "=",
	OAdd: "bvadd", OSub: "bvsub", OMul: "bvmul", OUDiv: "bvudiv", OURem: "bvurem",
	OSDiv: "bvsdiv", OSRem: "bvsrem", OBAnd: "bvand", OBOr: "bvor", OBXor: "bvxor",
	OBNot: "bvnot", ONeg: "bvneg", OShl: "bvshl", OLShr: "bvlshr", OAShr: "bvashr",
	OULt: "bvult", OULe: "bvule", OSLt: "bvslt", OSLe: "bvsle", OConcat: "concat",
	OFAdd: "fp.add RNE", OFSub: "fp.sub RNE", OFMul: "fp.mul RNE", OFDiv: "fp.div RNE",
	OFNeg: "fp.neg", OFEq: "fp.eq", OFLt: "fp.lt", OFLe: "fp.leq", OFIsNaN: "fp.isNaN",
	OFAbs: "fp.abs",
}

// Term is an immutable, hash-consed node.
type Term struct {
	ID   int
	Op   Op
	S    Sort
	Args [3]*Term
	N    uint8  // number of args
	Val  uint64 // constant value (BV<=64: zero-extended; Bool: 0/1; FP: IEEE bits)
	Big  *big.Int
	Aux  uint32
	Name string // variables
	UMax uint64 // unsigned upper bound for BV<=64 terms (sound over-approximation)
	SLo  int64  // signed range (sound over-approximation) for BV<=64 terms
	SHi  int64
}

func (t *Term) IsConst() bool { return t.Op == OConst }
func (t *Term) IsTrue() bool  { return t.Op == OConst && t.S.K == KBool && t.Val == 1 }
func (t *Term) IsFalse() bool { return t.Op == OConst && t.S.K == KBool && t.Val == 0 }

type key struct {
	op         Op
	s          Sort
	a0, a1, a2 int
	val        uint64
	aux        uint32
	name       string
}

// Table is a constant lookup table (a Go string / array constant indexed
// by a symbolic index). It is encoded as a balanced ite tree over the
// index bits.
type Table struct {
	ID    int
	Vals  []uint64
	ElemW int
	IdxW  int // number of index bits used
	key   string
}

// Ctx owns the terms of one executor (not safe for concurrent use).
type Ctx struct {
	terms  map[key]*Term
	All    []*Term
	Tables []*Table
	tblIdx map[string]*Table
	T, F   *Term
	small  [4][256]*Term // cached small constants for widths 8,32,64 and bool-ish
}

func NewCtx() *Ctx {
	c := &Ctx{terms: map[key]*Term{}, tblIdx: map[string]*Table{}}
	c.T = c.mk(&Term{Op: OConst, S: Bool, Val: 1})
	c.F = c.mk(&Term{Op: OConst, S: Bool, Val: 0})
	return c
}

func (c *Ctx) mk(t *Term) *Term {
	k := key{op: t.Op, s: t.S, val: t.Val, aux: t.Aux, name: t.Name}
	if t.N > 0 {
		k.a0 = t.Args[0].ID + 1
	}
	if t.N > 1 {
		k.a1 = t.Args[1].ID + 1
	}
	if t.N > 2 {
		k.a2 = t.Args[2].ID + 1
	}
	if t.Big != nil {
		k.name = t.Big.String()
	}
	if old, ok := c.terms[k]; ok {
		return old
	}
	t.ID = len(c.All)
	if t.S.K == KBV && t.S.W <= 64 {
		t.UMax = c.umax(t)
		t.SLo, t.SHi = c.srange(t)
	}
	c.All = append(c.All, t)
	c.terms[k] = t
	return t
}

func mask(w uint16) uint64 {
	if w >= 64 {
		return ^uint64(0)
	}
	return (uint64(1) << w) - 1
}

func (c *Ctx) umax(t *Term) uint64 {
	m := mask(t.S.W)
	switch t.Op {
	case OConst:
		return t.Val
	case OZExt:
		return t.Args[0].UMax
	case OBAnd:
		a, b := t.Args[0].UMax, t.Args[1].UMax
		if a < b {
			return a
		}
		return b
	case OBOr, OBXor:
		a, b := t.Args[0].UMax, t.Args[1].UMax
		if a < b {
			a = b
		}
		if a == 0 {
			return 0
		}
		// next power of two minus one
		n := bits.Len64(a)
		if n >= 64 {
			return m
		}
		r := (uint64(1) << n) - 1
		if r > m {
			return m
		}
		return r
	case OIte:
		a, b := t.Args[1].UMax, t.Args[2].UMax
		if a < b {
			return b
		}
		return a
	case OURem:
		if t.Args[1].IsConst() && t.Args[1].Val > 0 {
			r := t.Args[1].Val - 1
			if t.Args[0].UMax < r {
				return t.Args[0].UMax
			}
			return r
		}
		return t.Args[0].UMax
	case OUDiv:
		if t.Args[1].IsConst() && t.Args[1].Val > 0 {
			return t.Args[0].UMax / t.Args[1].Val
		}
		return m // x/0 = all ones
	case OLShr:
		if t.Args[1].IsConst() {
			if t.Args[1].Val >= 64 {
				return 0
			}
			return t.Args[0].UMax >> t.Args[1].Val
		}
		return t.Args[0].UMax
	case OAdd:
		a, b := t.Args[0].UMax, t.Args[1].UMax
		s, carry := bits.Add64(a, b, 0)
		if carry == 0 && s <= m {
			return s
		}
		return m
	case OMul:
		hi, lo := bits.Mul64(t.Args[0].UMax, t.Args[1].UMax)
		if hi == 0 && lo <= m {
			return lo
		}
		return m
	case OSelect:
		tb := c.Tables[t.Aux]
		var mx uint64
		for _, v := range tb.Vals {
			if v > mx {
				mx = v
			}
		}
		return mx
	case OExtract:
		lo := t.Aux & 0xffff
		if lo == 0 {
			if t.Args[0].UMax < m {
				return t.Args[0].UMax
			}
		}
		return m
	}
	return m
}

func sfull(w uint16) (int64, int64) {
	if w >= 64 {
		return -1 << 63, 1<<63 - 1
	}
	return -(int64(1) << (w - 1)), int64(1)<<(w-1) - 1
}

func addOv(a, b int64) (int64, bool) {
	r := a + b
	if (a > 0 && b > 0 && r < 0) || (a < 0 && b < 0 && r >= 0) {
		return 0, true
	}
	return r, false
}

func mulOv(a, b int64) (int64, bool) {
	if a == 0 || b == 0 {
		return 0, false
	}
	r := a * b
	if r/b != a || (a == -1 && b == -1<<63) || (b == -1 && a == -1<<63) {
		return 0, true
	}
	return r, false
}

func abs64(a int64) int64 {
	if a < 0 {
		if a == -1<<63 {
			return 1<<63 - 1
		}
		return -a
	}
	return a
}

// srange computes a signed interval for a BV term (sound over-approximation).
func (c *Ctx) srange(t *Term) (int64, int64) {
	lo, hi := sfull(t.S.W)
	fits := func(a, b int64) (int64, int64) {
		if a < lo || b > hi || a > b {
			return lo, hi
		}
		return a, b
	}
	switch t.Op {
	case OConst:
		v := sext(t.Val, t.S.W)
		return v, v
	case OSExt:
		return t.Args[0].SLo, t.Args[0].SHi
	case OZExt:
		if t.Args[0].UMax <= uint64(hi) {
			return 0, int64(t.Args[0].UMax)
		}
	case OIte:
		a, b := t.Args[1], t.Args[2]
		l, h := a.SLo, a.SHi
		if b.SLo < l {
			l = b.SLo
		}
		if b.SHi > h {
			h = b.SHi
		}
		return l, h
	case OAdd:
		a, b := t.Args[0], t.Args[1]
		l, o1 := addOv(a.SLo, b.SLo)
		h, o2 := addOv(a.SHi, b.SHi)
		if !o1 && !o2 {
			return fits(l, h)
		}
	case OSub:
		a, b := t.Args[0], t.Args[1]
		if b.SHi != -1<<63 && b.SLo != -1<<63 {
			l, o1 := addOv(a.SLo, -b.SHi)
			h, o2 := addOv(a.SHi, -b.SLo)
			if !o1 && !o2 {
				return fits(l, h)
			}
		}
	case ONeg:
		a := t.Args[0]
		if a.SLo != -1<<63 {
			return fits(-a.SHi, -a.SLo)
		}
	case OMul:
		a, b := t.Args[0], t.Args[1]
		var cs [4]int64
		ov := false
		for i, p := range [][2]int64{{a.SLo, b.SLo}, {a.SLo, b.SHi}, {a.SHi, b.SLo}, {a.SHi, b.SHi}} {
			r, o := mulOv(p[0], p[1])
			ov = ov || o
			cs[i] = r
		}
		if !ov {
			l, h := cs[0], cs[0]
			for _, v := range cs[1:] {
				if v < l {
					l = v
				}
				if v > h {
					h = v
				}
			}
			return fits(l, h)
		}
	case OSDiv, OSRem:
		a := t.Args[0]
		m := abs64(a.SLo)
		if abs64(a.SHi) > m {
			m = abs64(a.SHi)
		}
		if m < 1<<62 {
			// |a/b| <= |a| (b != 0; b == 0 gives +-1 in SMT-LIB), |a%b| <= |a|
			if m < 1 {
				m = 1
			}
			return fits(-m, m)
		}
	case OSelect:
		tb := c.Tables[t.Aux]
		l, h := sext(tb.Vals[0], t.S.W), sext(tb.Vals[0], t.S.W)
		for _, v := range tb.Vals {
			sv := sext(v, t.S.W)
			if sv < l {
				l = sv
			}
			if sv > h {
				h = sv
			}
		}
		return l, h
	default:
		if t.UMax <= uint64(hi) {
			return 0, int64(t.UMax)
		}
	}
	if t.UMax <= uint64(hi) && t.Op != OVar {
		return 0, int64(t.UMax)
	}
	return lo, hi
}

// narrowW returns a width (16 or 32) in which signed operands a and b can be
// computed exactly, or 0.
func narrowW(a, b *Term) int {
	m := abs64(a.SLo)
	for _, v := range []int64{a.SHi, b.SLo, b.SHi} {
		if abs64(v) > m {
			m = abs64(v)
		}
	}
	switch {
	case m < 1<<7:
		return 16
	case m < 1<<15:
		return 32
	}
	return 0
}

// narrowMulW returns a width in which a*b is exact (operands and product fit).
func narrowMulW(a, b *Term) int {
	ma, mb := abs64(a.SLo), abs64(b.SLo)
	if abs64(a.SHi) > ma {
		ma = abs64(a.SHi)
	}
	if abs64(b.SHi) > mb {
		mb = abs64(b.SHi)
	}
	if ma >= 1<<31 || mb >= 1<<31 {
		return 0
	}
	p := ma * mb
	switch {
	case p < 1<<15 && ma < 1<<15 && mb < 1<<15:
		return 16
	case p < 1<<31:
		return 32
	}
	return 0
}

// ---------- constructors ----------

func (c *Ctx) Bool(b bool) *Term {
	if b {
		return c.T
	}
	return c.F
}

func (c *Ctx) Const(s Sort, v uint64) *Term {
	if s.K == KBool {
		return c.Bool(v != 0)
	}
	if s.K == KBV {
		if s.W > 64 {
			return c.mk(&Term{Op: OConst, S: s, Big: new(big.Int).SetUint64(v)})
		}
		v &= mask(s.W)
	}
	return c.mk(&Term{Op: OConst, S: s, Val: v})
}

func (c *Ctx) BigConst(w int, v *big.Int) *Term {
	if w <= 64 {
		return c.Const(BV(w), v.Uint64())
	}
	return c.mk(&Term{Op: OConst, S: BV(w), Big: new(big.Int).Set(v)})
}

func (c *Ctx) Var(name string, s Sort) *Term {
	return c.mk(&Term{Op: OVar, S: s, Name: name})
}

func (c *Ctx) un(op Op, s Sort, a *Term) *Term {
	return c.mk(&Term{Op: op, S: s, Args: [3]*Term{a}, N: 1})
}
func (c *Ctx) bin(op Op, s Sort, a, b *Term) *Term {
	return c.mk(&Term{Op: op, S: s, Args: [3]*Term{a, b}, N: 2})
}

func (c *Ctx) Not(a *Term) *Term {
	if a.IsConst() {
		return c.Bool(a.Val == 0)
	}
	if a.Op == ONot {
		return a.Args[0]
	}
	return c.un(ONot, Bool, a)
}

func (c *Ctx) And(a, b *Term) *Term {
	if a.IsConst() {
		if a.Val == 0 {
			return c.F
		}
		return b
	}
	if b.IsConst() {
		if b.Val == 0 {
			return c.F
		}
		return a
	}
	if a == b {
		return a
	}
	return c.bin(OAnd, Bool, a, b)
}

func (c *Ctx) Or(a, b *Term) *Term {
	if a.IsConst() {
		if a.Val == 1 {
			return c.T
		}
		return b
	}
	if b.IsConst() {
		if b.Val == 1 {
			return c.T
		}
		return a
	}
	if a == b {
		return a
	}
	return c.bin(OOr, Bool, a, b)
}

func (c *Ctx) Implies(a, b *Term) *Term { return c.Or(c.Not(a), b) }
func (c *Ctx) Iff(a, b *Term) *Term     { return c.Eq(a, b) }

func (c *Ctx) Ite(cnd, a, b *Term) *Term {
	if cnd.IsConst() {
		if cnd.Val == 1 {
			return a
		}
		return b
	}
	if a == b {
		return a
	}
	if a.S != b.S {
		panic(fmt.Sprintf("sym.Ite: sort mismatch %v %v", a.S, b.S))
	}
	if a.S.K == KBool {
		if a.IsConst() && b.IsConst() {
			if a.Val == 1 {
				return cnd
			}
			return c.Not(cnd)
		}
	}
	return c.mk(&Term{Op: OIte, S: a.S, Args: [3]*Term{cnd, a, b}, N: 3})
}

func (c *Ctx) Eq(a, b *Term) *Term {
	if a.S != b.S {
		panic(fmt.Sprintf("sym.Eq: sort mismatch %v %v", a.S, b.S))
	}
	if a == b {
		if a.S.K == KFP {
			// structural equality of FP terms: (= x x) is true in SMT (not fp.eq)
			return c.T
		}
		return c.T
	}
	if a.IsConst() && b.IsConst() {
		if a.Big != nil || b.Big != nil {
			return c.Bool(a.Big != nil && b.Big != nil && a.Big.Cmp(b.Big) == 0)
		}
		return c.Bool(a.Val == b.Val)
	}
	if a.S.K == KBool {
		if a.IsConst() {
			a, b = b, a
		}
		if b.IsConst() {
			if b.Val == 1 {
				return a
			}
			return c.Not(a)
		}
	}
	if a.S.K == KBV && a.S.W <= 64 {
		// interval folding
		if a.IsConst() && a.Val > b.UMax {
			return c.F
		}
		if b.IsConst() && b.Val > a.UMax {
			return c.F
		}
		// zext(x) == const  ->  x == const'
		if b.IsConst() && a.Op == OZExt {
			return c.Eq(a.Args[0], c.Const(a.Args[0].S, b.Val))
		}
		if a.IsConst() && b.Op == OZExt {
			return c.Eq(b.Args[0], c.Const(b.Args[0].S, a.Val))
		}
		// select(table,i) == const where const not in table
		if b.IsConst() && a.Op == OSelect && !c.Tables[a.Aux].has(b.Val) {
			return c.F
		}
		if a.IsConst() && b.Op == OSelect && !c.Tables[b.Aux].has(a.Val) {
			return c.F
		}
	}
	if a.ID > b.ID {
		a, b = b, a
	}
	return c.bin(OEq, Bool, a, b)
}

func (tb *Table) has(v uint64) bool {
	for _, x := range tb.Vals {
		if x == v {
			return true
		}
	}
	return false
}

func sext(v uint64, w uint16) int64 {
	if w >= 64 {
		return int64(v)
	}
	sh := 64 - w
	return int64(v<<sh) >> sh
}

// BinBV builds a bit-vector binary operation with folding.
func (c *Ctx) BinBV(op Op, a, b *Term) *Term {
	if a.S != b.S {
		panic(fmt.Sprintf("sym.BinBV %v: sort mismatch %v %v", opNames[op], a.S, b.S))
	}
	s := a.S
	w := s.W
	if a.IsConst() && b.IsConst() && w <= 64 {
		x, y := a.Val, b.Val
		var r uint64
		switch op {
		case OAdd:
			r = x + y
		case OSub:
			r = x - y
		case OMul:
			r = x * y
		case OUDiv:
			if y == 0 {
				r = mask(w)
			} else {
				r = x / y
			}
		case OURem:
			if y == 0 {
				r = x
			} else {
				r = x % y
			}
		case OSDiv:
			sx, sy := sext(x, w), sext(y, w)
			if sy == 0 {
				if sx >= 0 {
					r = mask(w)
				} else {
					r = 1
				}
			} else if sy == -1 {
				r = uint64(-sx)
			} else {
				r = uint64(sx / sy)
			}
		case OSRem:
			sx, sy := sext(x, w), sext(y, w)
			if sy == 0 {
				r = x
			} else if sy == -1 {
				r = 0
			} else {
				r = uint64(sx % sy)
			}
		case OBAnd:
			r = x & y
		case OBOr:
			r = x | y
		case OBXor:
			r = x ^ y
		case OShl:
			if y >= uint64(w) {
				r = 0
			} else {
				r = x << y
			}
		case OLShr:
			if y >= uint64(w) {
				r = 0
			} else {
				r = x >> y
			}
		case OAShr:
			sx := sext(x, w)
			if y >= uint64(w) {
				y = uint64(w) - 1
			}
			r = uint64(sx >> y)
		default:
			panic("BinBV op")
		}
		return c.Const(s, r)
	}
	if w == 64 && (op == OSDiv || op == OSRem || op == OMul) && !a.IsConst() && !b.IsConst() {
		// both operands provably small: compute in a narrow width (the
		// products / quotients fit, so the sign-extended result is exact)
		nw := narrowW(a, b)
		if op == OMul {
			nw = narrowMulW(a, b)
		}
		if nw > 0 {
			na, nb := c.Extract(a, nw-1, 0), c.Extract(b, nw-1, 0)
			return c.SExt(c.bin(op, BV(nw), na, nb), 64)
		}
	}
	if w <= 64 && op == OSub && b.IsConst() && a.Op == OAdd {
		// (x + c) - c  ->  x   (digit bytes built as '0' + d)
		if a.Args[0].IsConst() && a.Args[0].Val == b.Val {
			return a.Args[1]
		}
		if a.Args[1].IsConst() && a.Args[1].Val == b.Val {
			return a.Args[0]
		}
	}
	if w <= 64 {
		switch op {
		case OAdd, OBOr, OBXor:
			if a.IsConst() && a.Val == 0 {
				return b
			}
			if b.IsConst() && b.Val == 0 {
				return a
			}
		case OSub, OShl, OLShr, OAShr:
			if b.IsConst() && b.Val == 0 {
				return a
			}
		case OMul:
			if a.IsConst() && a.Val == 1 {
				return b
			}
			if b.IsConst() && b.Val == 1 {
				return a
			}
			if (a.IsConst() && a.Val == 0) || (b.IsConst() && b.Val == 0) {
				return c.Const(s, 0)
			}
		case OBAnd:
			if (a.IsConst() && a.Val == 0) || (b.IsConst() && b.Val == 0) {
				return c.Const(s, 0)
			}
			if a.IsConst() && a.Val == mask(w) {
				return b
			}
			if b.IsConst() && b.Val == mask(w) {
				return a
			}
		}
	}
	return c.bin(op, s, a, b)
}

// Cmp builds a comparison (OULt, OULe, OSLt, OSLe) with folding.
func (c *Ctx) Cmp(op Op, a, b *Term) *Term {
	if a.S != b.S {
		panic(fmt.Sprintf("sym.Cmp: sort mismatch %v %v", a.S, b.S))
	}
	w := a.S.W
	if w <= 64 {
		if a.IsConst() && b.IsConst() {
			switch op {
			case OULt:
				return c.Bool(a.Val < b.Val)
			case OULe:
				return c.Bool(a.Val <= b.Val)
			case OSLt:
				return c.Bool(sext(a.Val, w) < sext(b.Val, w))
			case OSLe:
				return c.Bool(sext(a.Val, w) <= sext(b.Val, w))
			}
		}
		if a == b {
			return c.Bool(op == OULe || op == OSLe)
		}
		// interval folding; for signed compare only when both are known non-negative
		smax := mask(w) >> 1
		signedOK := a.UMax <= smax && b.UMax <= smax
		switch op {
		case OULt:
			if a.UMax < umin(b) {
				return c.T
			}
			if umin(a) >= b.UMax {
				return c.F
			}
		case OULe:
			if a.UMax <= umin(b) {
				return c.T
			}
			if umin(a) > b.UMax {
				return c.F
			}
		case OSLt:
			if a.SHi < b.SLo {
				return c.T
			}
			if a.SLo >= b.SHi {
				return c.F
			}
		case OSLe:
			if a.SHi <= b.SLo {
				return c.T
			}
			if a.SLo > b.SHi {
				return c.F
			}
		}
		_ = signedOK
	} else if a.IsConst() && b.IsConst() {
		switch op {
		case OULt:
			return c.Bool(a.Big.Cmp(b.Big) < 0)
		case OULe:
			return c.Bool(a.Big.Cmp(b.Big) <= 0)
		}
	}
	return c.bin(op, Bool, a, b)
}

func umin(t *Term) uint64 {
	if t.IsConst() {
		return t.Val
	}
	return 0
}

func (c *Ctx) BNot(a *Term) *Term {
	if a.IsConst() && a.S.W <= 64 {
		return c.Const(a.S, ^a.Val)
	}
	return c.un(OBNot, a.S, a)
}

func (c *Ctx) Neg(a *Term) *Term {
	if a.IsConst() && a.S.W <= 64 {
		return c.Const(a.S, -a.Val)
	}
	return c.un(ONeg, a.S, a)
}

func (c *Ctx) ZExt(a *Term, w int) *Term {
	if int(a.S.W) == w {
		return a
	}
	if int(a.S.W) > w {
		return c.Extract(a, w-1, 0)
	}
	if a.IsConst() {
		if w <= 64 {
			return c.Const(BV(w), a.Val)
		}
		if a.Big != nil {
			return c.BigConst(w, a.Big)
		}
		return c.BigConst(w, new(big.Int).SetUint64(a.Val))
	}
	if a.Op == OZExt {
		return c.ZExt(a.Args[0], w)
	}
	return c.un(OZExt, BV(w), a)
}

func (c *Ctx) SExt(a *Term, w int) *Term {
	if int(a.S.W) == w {
		return a
	}
	if int(a.S.W) > w {
		return c.Extract(a, w-1, 0)
	}
	if a.IsConst() && a.S.W <= 64 {
		sv := sext(a.Val, a.S.W)
		if w <= 64 {
			return c.Const(BV(w), uint64(sv))
		}
		b := big.NewInt(sv)
		if sv < 0 {
			b.Add(b, new(big.Int).Lsh(big.NewInt(1), uint(w)))
		}
		return c.BigConst(w, b)
	}
	if a.S.W <= 64 && a.UMax <= mask(a.S.W)>>1 {
		return c.ZExt(a, w)
	}
	return c.un(OSExt, BV(w), a)
}

func (c *Ctx) Extract(a *Term, hi, lo int) *Term {
	w := hi - lo + 1
	if lo == 0 && w == int(a.S.W) {
		return a
	}
	if a.IsConst() && a.S.W <= 64 {
		return c.Const(BV(w), a.Val>>uint(lo))
	}
	if lo == 0 && (a.Op == OZExt || a.Op == OSExt) {
		in := a.Args[0]
		if int(in.S.W) == w {
			return in
		}
		if int(in.S.W) > w {
			return c.Extract(in, hi, 0)
		}
		if a.Op == OZExt {
			return c.ZExt(in, w)
		}
		return c.SExt(in, w)
	}
	return c.mk(&Term{Op: OExtract, S: BV(w), Args: [3]*Term{a}, N: 1, Aux: uint32(hi)<<16 | uint32(lo)})
}

func (c *Ctx) Concat(a, b *Term) *Term {
	w := int(a.S.W + b.S.W)
	if a.IsConst() && b.IsConst() && w <= 64 {
		return c.Const(BV(w), a.Val<<b.S.W|b.Val)
	}
	return c.bin(OConcat, BV(w), a, b)
}

// NewTable registers (or finds) a constant table.
func (c *Ctx) NewTable(vals []uint64, elemW int) *Table {
	kb := make([]byte, 0, len(vals)*2+4)
	kb = append(kb, byte(elemW))
	for _, v := range vals {
		kb = append(kb, byte(v), byte(v>>8), byte(v>>16), byte(v>>24))
		if elemW > 32 {
			kb = append(kb, byte(v>>32), byte(v>>40), byte(v>>48), byte(v>>56))
		}
	}
	k := string(kb)
	if t, ok := c.tblIdx[k]; ok {
		return t
	}
	n := 1
	for (1 << n) < len(vals) {
		n++
	}
	t := &Table{ID: len(c.Tables), Vals: append([]uint64(nil), vals...), ElemW: elemW, IdxW: n, key: k}
	c.Tables = append(c.Tables, t)
	c.tblIdx[k] = t
	return t
}

// Select builds table[idx]; the caller guarantees (by a bounds check on the
// path) that idx < len(table). idx may be any BV width.
func (c *Ctx) Select(tb *Table, idx *Term) *Term {
	if idx.IsConst() {
		return c.Const(BV(tb.ElemW), tb.Vals[idx.Val])
	}
	var ix *Term
	if int(idx.S.W) > tb.IdxW {
		ix = c.Extract(idx, tb.IdxW-1, 0)
	} else {
		ix = c.ZExt(idx, tb.IdxW)
	}
	if ix.IsConst() {
		return c.Const(BV(tb.ElemW), tb.Vals[ix.Val])
	}
	return c.mk(&Term{Op: OSelect, S: BV(tb.ElemW), Args: [3]*Term{ix}, N: 1, Aux: uint32(tb.ID)})
}

// ---------- floating point ----------

func fbits(s Sort, f float64) uint64 {
	if s.W == 32 {
		return uint64(math.Float32bits(float32(f)))
	}
	return math.Float64bits(f)
}

func fval(t *Term) float64 {
	if t.S.W == 32 {
		return float64(math.Float32frombits(uint32(t.Val)))
	}
	return math.Float64frombits(t.Val)
}

func (c *Ctx) FConst(s Sort, f float64) *Term {
	return c.mk(&Term{Op: OConst, S: s, Val: fbits(s, f)})
}

func FloatOf(t *Term) float64 { return fval(t) }

func (c *Ctx) FBin(op Op, a, b *Term) *Term {
	if a.IsConst() && b.IsConst() {
		x, y := fval(a), fval(b)
		var r float64
		if a.S.W == 32 {
			x32, y32 := float32(x), float32(y)
			var r32 float32
			switch op {
			case OFAdd:
				r32 = x32 + y32
			case OFSub:
				r32 = x32 - y32
			case OFMul:
				r32 = x32 * y32
			case OFDiv:
				r32 = x32 / y32
			}
			r = float64(r32)
		} else {
			switch op {
			case OFAdd:
				r = x + y
			case OFSub:
				r = x - y
			case OFMul:
				r = x * y
			case OFDiv:
				r = x / y
			}
		}
		return c.FConst(a.S, r)
	}
	return c.bin(op, a.S, a, b)
}

// exactInt reports whether t is an exact int->float conversion (source
// narrower than the mantissa) and returns the integer as a signed 64-bit term.
func (c *Ctx) exactInt(t *Term) (*Term, bool) {
	if (t.Op == OSIToFP || t.Op == OUIToFP) && t.S.W == 64 {
		x := t.Args[0]
		if t.Op == OSIToFP && x.S.W <= 53 {
			return c.SExt(x, 64), true
		}
		if t.Op == OUIToFP && x.S.W <= 52 {
			return c.ZExt(x, 64), true
		}
		// a wide operand whose known range is exactly representable
		if t.Op == OUIToFP && x.S.W <= 64 && x.UMax < 1<<52 {
			return c.ZExt(x, 64), true
		}
		if t.Op == OUIToFP && x.S.W == 64 && x.SLo >= 0 && x.SHi < 1<<52 {
			return x, true
		}
		if t.Op == OSIToFP && x.S.W == 64 && x.SLo > -(1<<52) && x.SHi < 1<<52 {
			return x, true
		}
	}
	if t.Op == OConst && t.S.K == KFP && t.S.W == 64 {
		f := fval(t)
		if f == float64(int64(f)) && f > -(1<<52) && f < 1<<52 {
			return c.Const(BV(64), uint64(int64(f))), true
		}
	}
	return nil, false
}

func (c *Ctx) FCmp(op Op, a, b *Term) *Term {
	// comparisons between exactly converted integers are integer comparisons
	// (keeps floating point out of the incremental solver where possible)
	if !(a.IsConst() && b.IsConst()) {
		if x, ok := c.exactInt(a); ok {
			if y, ok2 := c.exactInt(b); ok2 {
				switch op {
				case OFEq:
					return c.Eq(x, y)
				case OFLt:
					return c.Cmp(OSLt, x, y)
				case OFLe:
					return c.Cmp(OSLe, x, y)
				}
			}
		}
	}
	// exactly converted integer vs a non-integral constant
	if !(a.IsConst() && b.IsConst()) && a.S.W == 64 {
		nonInt := func(t *Term) (float64, bool) {
			if t.Op != OConst {
				return 0, false
			}
			f := fval(t)
			return f, f == f && f > -(1<<52) && f < 1<<52 && f != math.Floor(f)
		}
		if x, ok := c.exactInt(a); ok {
			if f, ok2 := nonInt(b); ok2 {
				fl := c.Const(BV(64), uint64(int64(math.Floor(f))))
				if op == OFEq {
					return c.F
				}
				return c.Cmp(OSLe, x, fl) // x < f  <=>  x <= f  <=>  x <= floor(f)
			}
		}
		if y, ok := c.exactInt(b); ok {
			if f, ok2 := nonInt(a); ok2 {
				fl := c.Const(BV(64), uint64(int64(math.Floor(f))))
				if op == OFEq {
					return c.F
				}
				return c.Cmp(OSLt, fl, y) // f < y  <=>  f <= y  <=>  floor(f) < y
			}
		}
	}
	// exactly converted integer (|x| <= 2^52) vs a constant of magnitude >= 2^53
	if !(a.IsConst() && b.IsConst()) && a.S.W == 64 {
		huge := func(t *Term) (float64, bool) {
			if t.Op != OConst {
				return 0, false
			}
			f := fval(t)
			return f, f == f && (f >= 1<<53 || f <= -(1<<53))
		}
		if _, ok := c.exactInt(a); ok {
			if f, ok2 := huge(b); ok2 {
				if op == OFEq {
					return c.F
				}
				return c.Bool(f > 0) // x < f, x <= f
			}
		}
		if _, ok := c.exactInt(b); ok {
			if f, ok2 := huge(a); ok2 {
				if op == OFEq {
					return c.F
				}
				return c.Bool(f < 0) // f < y, f <= y
			}
		}
	}
	if a.IsConst() && b.IsConst() {
		x, y := fval(a), fval(b)
		switch op {
		case OFEq:
			return c.Bool(x == y)
		case OFLt:
			return c.Bool(x < y)
		case OFLe:
			return c.Bool(x <= y)
		}
	}
	return c.bin(op, Bool, a, b)
}

func (c *Ctx) FNeg(a *Term) *Term {
	if a.IsConst() {
		return c.FConst(a.S, -fval(a))
	}
	return c.un(OFNeg, a.S, a)
}

func (c *Ctx) FAbs(a *Term) *Term {
	if a.IsConst() {
		return c.FConst(a.S, math.Abs(fval(a)))
	}
	return c.un(OFAbs, a.S, a)
}

func (c *Ctx) FIsNaN(a *Term) *Term {
	if a.IsConst() {
		return c.Bool(math.IsNaN(fval(a)))
	}
	return c.un(OFIsNaN, Bool, a)
}

// IntToFP converts a BV (signed or unsigned) to a float sort.
func (c *Ctx) IntToFP(a *Term, signed bool, s Sort) *Term {
	if a.IsConst() && a.S.W <= 64 {
		var f float64
		if signed {
			f = float64(sext(a.Val, a.S.W))
			if s.W == 32 {
				f = float64(float32(sext(a.Val, a.S.W)))
			}
		} else {
			f = float64(a.Val)
			if s.W == 32 {
				f = float64(float32(a.Val))
			}
		}
		return c.FConst(s, f)
	}
	// convert from the narrow operand of an extension: far cheaper to bit-blast
	if a.Op == OSExt && signed {
		return c.IntToFP(a.Args[0], true, s)
	}
	if a.Op == OZExt {
		return c.IntToFP(a.Args[0], false, s)
	}
	if signed {
		return c.un(OSIToFP, s, a)
	}
	return c.un(OUIToFP, s, a)
}

// FPToInt converts with truncation toward zero (Go semantics for in-range values).
func (c *Ctx) FPToInt(a *Term, signed bool, w int) *Term {
	if x, ok := c.exactInt(a); ok && !a.IsConst() && w == 64 {
		return x
	}
	if a.IsConst() {
		f := fval(a)
		if signed {
			return c.Const(BV(w), uint64(int64(f)))
		}
		return c.Const(BV(w), uint64(f))
	}
	if signed {
		return c.un(OFPToSI, BV(w), a)
	}
	return c.un(OFPToUI, BV(w), a)
}

func (c *Ctx) FPToFP(a *Term, s Sort) *Term {
	if a.S == s {
		return a
	}
	if a.IsConst() {
		return c.FConst(s, fval(a))
	}
	return c.un(OFPToFP, s, a)
}

func (c *Ctx) BitsToFP(a *Term) *Term {
	s := FP(int(a.S.W))
	if a.IsConst() {
		return c.mk(&Term{Op: OConst, S: s, Val: a.Val})
	}
	return c.un(OBitsToFP, s, a)
}
