package sym

import (
	"fmt"
	"math/big"
	"strings"
)

// Printer emits SMT-LIB2 definitions for terms, once per session.
// Every non-leaf node becomes a nullary define-fun "t<ID>" so that the
// text is linear in the DAG size.
type Printer struct {
	c        *Ctx
	sent     map[int]bool // term ids defined / declared
	sentTbl  map[int]bool
	Out      *strings.Builder
	NumDefs  int
	VarsSeen []*Term // variables declared in this session, in order
}

func NewPrinter(c *Ctx) *Printer {
	return &Printer{c: c, sent: map[int]bool{}, sentTbl: map[int]bool{}, Out: &strings.Builder{}}
}

func constStr(t *Term) string {
	switch t.S.K {
	case KBool:
		if t.Val == 1 {
			return "true"
		}
		return "false"
	case KBV:
		if t.Big != nil {
			return fmt.Sprintf("(_ bv%s %d)", t.Big.String(), t.S.W)
		}
		if t.S.W%4 == 0 {
			return fmt.Sprintf("#x%0*x", int(t.S.W/4), t.Val)
		}
		return fmt.Sprintf("#b%0*b", int(t.S.W), t.Val)
	default:
		if t.S.W == 32 {
			return fmt.Sprintf("((_ to_fp 8 24) #x%08x)", uint32(t.Val))
		}
		return fmt.Sprintf("((_ to_fp 11 53) #x%016x)", t.Val)
	}
}

// Ref returns the textual reference to t, emitting definitions to p.Out as needed.
func (p *Printer) Ref(t *Term) string {
	switch t.Op {
	case OConst:
		return constStr(t)
	case OVar:
		if !p.sent[t.ID] {
			p.sent[t.ID] = true
			p.VarsSeen = append(p.VarsSeen, t)
			fmt.Fprintf(p.Out, "(declare-const %s %s)\n", t.Name, t.S)
		}
		return t.Name
	}
	name := fmt.Sprintf("t%d", t.ID)
	if p.sent[t.ID] {
		return name
	}
	var args [3]string
	for i := 0; i < int(t.N); i++ {
		args[i] = p.Ref(t.Args[i])
	}
	var body string
	switch t.Op {
	case OZExt:
		body = fmt.Sprintf("((_ zero_extend %d) %s)", t.S.W-t.Args[0].S.W, args[0])
	case OSExt:
		body = fmt.Sprintf("((_ sign_extend %d) %s)", t.S.W-t.Args[0].S.W, args[0])
	case OExtract:
		body = fmt.Sprintf("((_ extract %d %d) %s)", t.Aux>>16, t.Aux&0xffff, args[0])
	case OSelect:
		p.defTable(p.c.Tables[t.Aux])
		body = fmt.Sprintf("(tbl%d %s)", t.Aux, args[0])
	case OSIToFP:
		body = fmt.Sprintf("((_ to_fp %s) RNE %s)", fpDims(t.S), args[0])
	case OUIToFP:
		body = fmt.Sprintf("((_ to_fp_unsigned %s) RNE %s)", fpDims(t.S), args[0])
	case OFPToSI:
		body = fmt.Sprintf("((_ fp.to_sbv %d) RTZ %s)", t.S.W, args[0])
	case OFPToUI:
		body = fmt.Sprintf("((_ fp.to_ubv %d) RTZ %s)", t.S.W, args[0])
	case OFPToFP:
		body = fmt.Sprintf("((_ to_fp %s) RNE %s)", fpDims(t.S), args[0])
	case OBitsToFP:
		body = fmt.Sprintf("((_ to_fp %s) %s)", fpDims(t.S), args[0])
	default:
		nm, ok := opNames[t.Op]
		if !ok {
			panic(fmt.Sprintf("smt: no name for op %d", t.Op))
		}
		body = "(" + nm
		for i := 0; i < int(t.N); i++ {
			body += " " + args[i]
		}
		body += ")"
	}
	fmt.Fprintf(p.Out, "(define-fun %s () %s %s)\n", name, t.S, body)
	p.sent[t.ID] = true
	p.NumDefs++
	return name
}

func fpDims(s Sort) string {
	if s.W == 32 {
		return "8 24"
	}
	return "11 53"
}

func (p *Printer) defTable(tb *Table) {
	if p.sentTbl[tb.ID] {
		return
	}
	p.sentTbl[tb.ID] = true
	var sb strings.Builder
	var rec func(lo, size int, bit int)
	cv := func(v uint64) string {
		if tb.ElemW%4 == 0 {
			return fmt.Sprintf("#x%0*x", tb.ElemW/4, v)
		}
		return fmt.Sprintf("#b%0*b", tb.ElemW, v)
	}
	at := func(i int) uint64 {
		if i < len(tb.Vals) {
			return tb.Vals[i]
		}
		return tb.Vals[len(tb.Vals)-1]
	}
	rec = func(lo, size int, bit int) {
		// all equal?
		same := true
		v0 := at(lo)
		for i := lo + 1; i < lo+size; i++ {
			if at(i) != v0 {
				same = false
				break
			}
		}
		if same {
			sb.WriteString(cv(v0))
			return
		}
		half := size / 2
		fmt.Fprintf(&sb, "(ite (= ((_ extract %d %d) i) #b1) ", bit, bit)
		rec(lo+half, half, bit-1)
		sb.WriteString(" ")
		rec(lo, half, bit-1)
		sb.WriteString(")")
	}
	rec(0, 1<<tb.IdxW, tb.IdxW-1)
	fmt.Fprintf(p.Out, "(define-fun tbl%d ((i (_ BitVec %d))) (_ BitVec %d) %s)\n", tb.ID, tb.IdxW, tb.ElemW, sb.String())
}

// Inline renders t as a self-contained expression (let-bound sharing).
// Variables and tables are declared (once per session) into p.Out.
func (p *Printer) Inline(t *Term) string {
	// count uses within this term's DAG
	uses := map[int]int{}
	var order []*Term
	var visit func(x *Term)
	visit = func(x *Term) {
		if x.Op == OConst {
			return
		}
		uses[x.ID]++
		if uses[x.ID] > 1 {
			return
		}
		if x.Op == OVar {
			p.Ref(x)
			return
		}
		if x.Op == OSelect {
			p.defTable(p.c.Tables[x.Aux])
		}
		for i := 0; i < int(x.N); i++ {
			visit(x.Args[i])
		}
		order = append(order, x)
	}
	visit(t)
	named := map[int]string{}
	var expr func(x *Term) string
	ref := func(x *Term) string {
		if x.Op == OConst {
			return constStr(x)
		}
		if x.Op == OVar {
			return x.Name
		}
		if n, ok := named[x.ID]; ok {
			return n
		}
		return expr(x)
	}
	expr = func(x *Term) string {
		var args [3]string
		for i := 0; i < int(x.N); i++ {
			args[i] = ref(x.Args[i])
		}
		return p.body(x, args)
	}
	var sb strings.Builder
	closers := 0
	for _, x := range order {
		if x == t {
			continue
		}
		if uses[x.ID] > 1 {
			e := expr(x)
			n := fmt.Sprintf("s%d", x.ID)
			fmt.Fprintf(&sb, "(let ((%s %s)) ", n, e)
			named[x.ID] = n
			closers++
		}
	}
	sb.WriteString(ref(t))
	for i := 0; i < closers; i++ {
		sb.WriteByte(')')
	}
	return sb.String()
}

func (p *Printer) body(t *Term, args [3]string) string {
	switch t.Op {
	case OZExt:
		return fmt.Sprintf("((_ zero_extend %d) %s)", t.S.W-t.Args[0].S.W, args[0])
	case OSExt:
		return fmt.Sprintf("((_ sign_extend %d) %s)", t.S.W-t.Args[0].S.W, args[0])
	case OExtract:
		return fmt.Sprintf("((_ extract %d %d) %s)", t.Aux>>16, t.Aux&0xffff, args[0])
	case OSelect:
		return fmt.Sprintf("(tbl%d %s)", t.Aux, args[0])
	case OSIToFP:
		return fmt.Sprintf("((_ to_fp %s) RNE %s)", fpDims(t.S), args[0])
	case OUIToFP:
		return fmt.Sprintf("((_ to_fp_unsigned %s) RNE %s)", fpDims(t.S), args[0])
	case OFPToSI:
		return fmt.Sprintf("((_ fp.to_sbv %d) RTZ %s)", t.S.W, args[0])
	case OFPToUI:
		return fmt.Sprintf("((_ fp.to_ubv %d) RTZ %s)", t.S.W, args[0])
	case OFPToFP:
		return fmt.Sprintf("((_ to_fp %s) RNE %s)", fpDims(t.S), args[0])
	case OBitsToFP:
		return fmt.Sprintf("((_ to_fp %s) %s)", fpDims(t.S), args[0])
	}
	nm, ok := opNames[t.Op]
	if !ok {
		panic(fmt.Sprintf("smt: no name for op %d", t.Op))
	}
	b := "(" + nm
	for i := 0; i < int(t.N); i++ {
		b += " " + args[i]
	}
	return b + ")"
}

// Flush returns and clears pending definition text.
func (p *Printer) Flush() string {
	s := p.Out.String()
	p.Out.Reset()
	return s
}

// Standalone returns a self-contained script asserting all of asserts.
func Standalone(c *Ctx, asserts []*Term) (script string, vars []*Term) {
	p := NewPrinter(c)
	var refs []string
	for _, a := range asserts {
		refs = append(refs, p.Ref(a))
	}
	var sb strings.Builder
	sb.WriteString(p.Flush())
	for _, r := range refs {
		fmt.Fprintf(&sb, "(assert %s)\n", r)
	}
	return sb.String(), p.VarsSeen
}

// ---------- model values and evaluation ----------

// Model maps variable names to values (BV/Bool/FP bits as uint64; wide BVs in Big).
type Model struct {
	Vals map[string]uint64
	Bigs map[string]*big.Int
}

func NewModel() *Model { return &Model{Vals: map[string]uint64{}, Bigs: map[string]*big.Int{}} }

type evalRes struct {
	v  uint64
	ok bool
}

// Evaluator evaluates terms under a model, memoising per term id.
type Evaluator struct {
	c    *Ctx
	m    *Model
	memo map[int]evalRes
	// Default: value used for variables absent from the model (solver
	// don't-cares). If Strict, absent variables make evaluation fail.
	Strict bool
}

func NewEvaluator(c *Ctx, m *Model) *Evaluator {
	return &Evaluator{c: c, m: m, memo: map[int]evalRes{}}
}

// Eval returns the value of t (≤64-bit BV, Bool or FP bits). ok=false when
// the term uses something the evaluator does not implement (wide BVs).
func (e *Evaluator) Eval(t *Term) (uint64, bool) {
	if t.Op == OConst {
		if t.Big != nil {
			return 0, false
		}
		return t.Val, true
	}
	if r, ok := e.memo[t.ID]; ok {
		return r.v, r.ok
	}
	v, ok := e.eval(t)
	e.memo[t.ID] = evalRes{v, ok}
	return v, ok
}

func (e *Evaluator) eval(t *Term) (uint64, bool) {
	if t.S.K == KBV && t.S.W > 64 {
		return 0, false
	}
	if t.Op == OVar {
		v, ok := e.m.Vals[t.Name]
		if !ok {
			if e.Strict {
				return 0, false
			}
			return 0, true
		}
		return v, true
	}
	var a [3]uint64
	// lazy evaluation for ite/and/or to tolerate unevaluable dead branches
	switch t.Op {
	case OIte:
		cv, ok := e.Eval(t.Args[0])
		if !ok {
			return 0, false
		}
		if cv == 1 {
			return e.Eval(t.Args[1])
		}
		return e.Eval(t.Args[2])
	case OAnd:
		x, ok := e.Eval(t.Args[0])
		if ok && x == 0 {
			return 0, true
		}
		y, ok2 := e.Eval(t.Args[1])
		if ok2 && y == 0 {
			return 0, true
		}
		return x & y, ok && ok2
	case OOr:
		x, ok := e.Eval(t.Args[0])
		if ok && x == 1 {
			return 1, true
		}
		y, ok2 := e.Eval(t.Args[1])
		if ok2 && y == 1 {
			return 1, true
		}
		return x | y, ok && ok2
	}
	for i := 0; i < int(t.N); i++ {
		if t.Args[i].S.K == KBV && t.Args[i].S.W > 64 {
			return 0, false
		}
		v, ok := e.Eval(t.Args[i])
		if !ok {
			return 0, false
		}
		a[i] = v
	}
	c := e.c
	b2u := func(b bool) uint64 {
		if b {
			return 1
		}
		return 0
	}
	switch t.Op {
	case ONot:
		return a[0] ^ 1, true
	case OEq:
		if t.Args[0].S.K == KFP {
			// SMT '=' on FP: identical (NaN = NaN, +0 != -0)
			x, y := fval(&Term{S: t.Args[0].S, Val: a[0]}), fval(&Term{S: t.Args[0].S, Val: a[1]})
			if x != x && y != y {
				return 1, true
			}
			return b2u(a[0] == a[1]), true
		}
		return b2u(a[0] == a[1]), true
	case OAdd, OSub, OMul, OUDiv, OURem, OSDiv, OSRem, OBAnd, OBOr, OBXor, OShl, OLShr, OAShr:
		r := c.BinBV(t.Op, c.Const(t.S, a[0]), c.Const(t.S, a[1]))
		return r.Val, true
	case OBNot:
		return ^a[0] & mask(t.S.W), true
	case ONeg:
		return -a[0] & mask(t.S.W), true
	case OULt, OULe, OSLt, OSLe:
		r := c.Cmp(t.Op, c.Const(t.Args[0].S, a[0]), c.Const(t.Args[0].S, a[1]))
		return r.Val, true
	case OZExt:
		return a[0], true
	case OSExt:
		return uint64(sext(a[0], t.Args[0].S.W)) & mask(t.S.W), true
	case OExtract:
		lo := t.Aux & 0xffff
		return (a[0] >> lo) & mask(t.S.W), true
	case OConcat:
		return (a[0]<<t.Args[1].S.W | a[1]) & mask(t.S.W), true
	case OSelect:
		tb := c.Tables[t.Aux]
		if int(a[0]) >= len(tb.Vals) {
			return tb.Vals[len(tb.Vals)-1], true
		}
		return tb.Vals[a[0]], true
	case OFAdd, OFSub, OFMul, OFDiv:
		r := c.FBin(t.Op, &Term{Op: OConst, S: t.S, Val: a[0]}, &Term{Op: OConst, S: t.S, Val: a[1]})
		return r.Val, true
	case OFEq, OFLt, OFLe:
		s := t.Args[0].S
		r := c.FCmp(t.Op, &Term{Op: OConst, S: s, Val: a[0]}, &Term{Op: OConst, S: s, Val: a[1]})
		return r.Val, true
	case OFNeg:
		return c.FNeg(&Term{Op: OConst, S: t.S, Val: a[0]}).Val, true
	case OFAbs:
		return c.FAbs(&Term{Op: OConst, S: t.S, Val: a[0]}).Val, true
	case OFIsNaN:
		return c.FIsNaN(&Term{Op: OConst, S: t.Args[0].S, Val: a[0]}).Val, true
	case OSIToFP:
		return c.IntToFP(c.Const(t.Args[0].S, a[0]), true, t.S).Val, true
	case OUIToFP:
		return c.IntToFP(c.Const(t.Args[0].S, a[0]), false, t.S).Val, true
	case OFPToSI, OFPToUI:
		// out-of-range conversions are unspecified in SMT-LIB; refuse to evaluate them
		f := fval(&Term{S: t.Args[0].S, Val: a[0]})
		if f != f || f > 9e18 || f < -9e18 {
			return 0, false
		}
		if t.Op == OFPToUI && f < 0 {
			return 0, false
		}
		return c.FPToInt(&Term{Op: OConst, S: t.Args[0].S, Val: a[0]}, t.Op == OFPToSI, int(t.S.W)).Val, true
	case OFPToFP:
		return c.FPToFP(&Term{Op: OConst, S: t.Args[0].S, Val: a[0]}, t.S).Val, true
	case OBitsToFP:
		return a[0], true
	}
	return 0, false
}
