package exec

import (
	"fmt"
	"go/token"
	"go/types"
	"os"
	"runtime/debug"
	"strings"
	"time"

	"golang.org/x/tools/go/ssa"

	"verif/engine/solver"
	"verif/engine/sym"
)

type fnInfo struct {
	idx   map[ssa.Value]int
	nregs int
	// per block: index of first non-phi instruction
	firstNonPhi map[*ssa.BasicBlock]int
}

type deferred struct {
	fn   Value
	args []Value
	tail *deferred
	pos  token.Pos
}

type frame struct {
	ex        *Exec
	caller    *frame
	fn        *ssa.Function
	info      *fnInfo
	regs      []Value
	block     *ssa.BasicBlock
	prev      *ssa.BasicBlock
	defers    *deferred
	result    Value
	panicking bool
	panicVal  any // targetPanic
	phitmp    []Value
	depth     int
}

type undoRec struct {
	p   *Value
	old Value
	m   *Map
	ent []*mapEntry
}

// Exec is one executor: SSA program + term context + solver + path state.
type Exec struct {
	Prog    *ssa.Program
	c       *sym.Ctx
	sizes   types.Sizes
	globals map[*ssa.Global]*Value
	fninfo  map[*ssa.Function]*fnInfo
	consts  map[*ssa.Const]Value
	tstr    map[types.Type]string
	strTbl  map[string]*sym.Table

	z3 *solver.Proc
	pr *sym.Printer

	// decision trail (DFS by re-execution)
	trail    []*choice
	pos      int
	prefixN  int // number of forced leading trail entries
	cutDepth int // >0: enumeration mode, stop paths when the trail reaches this depth

	// per-path state
	pc        []*sym.Term
	model     *sym.Model
	eval      *sym.Evaluator
	inputs    []*sym.Term
	inputSeq  map[string]int
	steps     int
	forks     int
	undo      []undoRec
	trailOn   bool
	epoch     int
	pools     map[*Value][]Value
	chanSeq   int
	res       *PathResult
	depth     int
	callStack []*ssa.Function
	opaqueErr types.Type

	// configuration
	MaxSteps  int
	MaxDepth  int
	MaxForks  int
	Trace     bool
	PoolFork  bool // sync.Pool.Get forks over New() and every earlier Put
	SkipInit  map[string]bool
	Externals map[string]External
	poisoned  map[*ssa.Global]bool

	// statistics
	TotalSteps   int64
	TotalPaths   int64
	FeasQueries  int64
	ModelHits    int64
	FuncsTouched map[*ssa.Function]bool

	rtErrString types.Type
	errorsNew   *ssa.Function

	knownVals        map[int]uint64
	varRange         map[int][2]uint64
	decMemo          map[int][]*sym.Term
	facts            map[int]bool
	KeepScripts      bool
	CrossCheck       func(id, script string, expect solver.Result)
	MapOrder         func(ex *Exec, ents []*mapEntry) []*mapEntry
	lastRecovered    *targetPanic
	onceDone         map[*Value]bool
	ParseFloatStub   func(ex *Exec, fr *frame, s Str, bits int) Value
	CoverDone        func(id string) bool
	Params           map[string]int
	AssertFilter     func(id string) bool
	HangAsFailure    bool
	ArithFallback    bool
	FallbackQueries  int64
	FallbackResolved int
	FallbackBy       map[string]int
	FallbackTime     time.Duration
	initPhase        bool
	rtypeT           types.Type
	pfVars           map[string]*sym.Term
	pfText           map[int][]*sym.Term
	InitSkipped      []string
}

type External func(ex *Exec, fr *frame, args []Value) Value

// New creates an executor over prog. z3 may be nil for purely concrete runs.
func New(prog *ssa.Program) (*Exec, error) {
	ex := &Exec{
		Prog:         prog,
		c:            sym.NewCtx(),
		sizes:        types.SizesFor("gc", "amd64"),
		globals:      map[*ssa.Global]*Value{},
		fninfo:       map[*ssa.Function]*fnInfo{},
		consts:       map[*ssa.Const]Value{},
		tstr:         map[types.Type]string{},
		strTbl:       map[string]*sym.Table{},
		MaxSteps:     4_000_000,
		MaxDepth:     400,
		MaxForks:     100000,
		SkipInit:     map[string]bool{},
		Externals:    map[string]External{},
		poisoned:     map[*ssa.Global]bool{},
		FuncsTouched: map[*ssa.Function]bool{},
		pools:        map[*Value][]Value{},
		inputSeq:     map[string]int{},
		onceDone:     map[*Value]bool{},
		knownVals:    map[int]uint64{},
		FallbackBy:   map[string]int{},
	}
	z3, err := solver.Start("z3-4.8.12", []string{"z3", "-in"}, "(set-option :global-decls true)\n(set-option :timeout 30000)\n")
	if err != nil {
		return nil, err
	}
	ex.z3 = z3
	if lf := os.Getenv("VERIF_SMTLOG"); lf != "" {
		f, _ := os.Create(lf)
		z3.Log = f
	}
	ex.pr = sym.NewPrinter(ex.c)
	rt := prog.ImportedPackage("runtime")
	if rt == nil {
		return nil, fmt.Errorf("runtime package not in program")
	}
	ex.rtErrString = rt.Type("errorString").Object().Type()
	installExternals(ex)
	installDecimal(ex)
	installReflect(ex)
	return ex, nil
}

func (ex *Exec) Close() {
	if ex.z3 != nil {
		ex.z3.Close()
	}
}

// SetSolverTimeout sets the per-query soft timeout of the incremental solver.
func (ex *Exec) SetSolverTimeout(ms int) {
	ex.z3.Send(fmt.Sprintf("(set-option :timeout %d)\n", ms))
}

func (ex *Exec) Ctx() *sym.Ctx             { return ex.c }
func (ex *Exec) SolverStats() solver.Stats { return ex.z3.Stats }

// ---------- initialisation ----------

// InitGlobals allocates storage for all globals and runs package
// initialisers (concretely) for every package not in SkipInit.
func (ex *Exec) InitGlobals(roots []*ssa.Package) error {
	for _, pkg := range ex.Prog.AllPackages() {
		for _, m := range pkg.Members {
			if g, ok := m.(*ssa.Global); ok {
				cell := ex.zero(deref(g.Type()))
				ex.globals[g] = &cell
			}
		}
		if ex.SkipInit[pkg.Pkg.Path()] {
			// globals written by the skipped initialiser are poisoned
			if init := pkg.Func("init"); init != nil {
				ex.poisonInits(init, map[*ssa.Function]bool{})
			}
		}
	}
	var initErr error
	ex.initPhase = true
	defer func() { ex.initPhase = false }()
	for _, r := range roots {
		init := r.Func("init")
		if init == nil {
			continue
		}
		func() {
			defer func() {
				if e := recover(); e != nil {
					initErr = fmt.Errorf("package init of %s: %v [stack: %s]", r.Pkg.Path(), describePanic(e), ex.StackString(12))
					if os.Getenv("VERIF_DEBUG") != "" {
						debug.PrintStack()
					}
				}
			}()
			ex.steps = 0
			ex.callStack = ex.callStack[:0]
			ex.call(nil, init, nil, token.NoPos)
		}()
		if initErr != nil {
			return initErr
		}
	}
	ex.trailOn = true
	return nil
}

func (ex *Exec) poisonInits(fn *ssa.Function, seen map[*ssa.Function]bool) {
	if seen[fn] {
		return
	}
	seen[fn] = true
	for _, b := range fn.Blocks {
		for _, in := range b.Instrs {
			switch in := in.(type) {
			case *ssa.Store:
				if g, ok := in.Addr.(*ssa.Global); ok && g.Name() != "init$guard" {
					ex.poisoned[g] = true
					*ex.globals[g] = Poison{g.String()}
				}
			}
		}
	}
}

func describePanic(e any) string {
	switch e := e.(type) {
	case pathEnd:
		return fmt.Sprintf("%v: %s", e.kind, e.detail)
	case targetPanic:
		return fmt.Sprintf("target panic: %s at %s", describe(e.v), e.site)
	}
	return fmt.Sprint(e)
}

// ---------- frames ----------

func (ex *Exec) info(fn *ssa.Function) *fnInfo {
	if fi, ok := ex.fninfo[fn]; ok {
		return fi
	}
	fi := &fnInfo{idx: map[ssa.Value]int{}, firstNonPhi: map[*ssa.BasicBlock]int{}}
	n := 0
	for _, p := range fn.Params {
		fi.idx[p] = n
		n++
	}
	for _, p := range fn.FreeVars {
		fi.idx[p] = n
		n++
	}
	for _, b := range fn.Blocks {
		first := -1
		for i, in := range b.Instrs {
			if _, isPhi := in.(*ssa.Phi); !isPhi && first < 0 {
				first = i
			}
			if v, ok := in.(ssa.Value); ok {
				fi.idx[v] = n
				n++
			}
		}
		fi.firstNonPhi[b] = first
	}
	fi.nregs = n
	ex.fninfo[fn] = fi
	ex.FuncsTouched[fn] = true
	return fi
}

func (fr *frame) get(v ssa.Value) Value {
	switch v := v.(type) {
	case nil:
		return nil
	case *ssa.Const:
		return fr.ex.constValue(v)
	case *ssa.Global:
		p := fr.ex.globals[v]
		if p == nil {
			internalErr("no storage for global %s", v)
		}
		return p
	case *ssa.Function:
		return v
	case *ssa.Builtin:
		return v
	}
	i, ok := fr.info.idx[v]
	if !ok {
		internalErr("get: no register for %T %s in %s", v, v.Name(), fr.fn)
	}
	return fr.regs[i]
}

func (fr *frame) set(v ssa.Value, x Value) {
	fr.regs[fr.info.idx[v]] = x
}

func (fr *frame) site(in ssa.Instruction) string {
	pos := in.Pos()
	if pos == token.NoPos {
		return fr.fn.String()
	}
	p := fr.ex.Prog.Fset.Position(pos)
	return fmt.Sprintf("%s:%d", p.Filename, p.Line)
}

func (ex *Exec) constValue(c *ssa.Const) Value {
	if v, ok := ex.consts[c]; ok {
		return v
	}
	v := ex.constValue0(c)
	ex.consts[c] = v
	return v
}

func (ex *Exec) constValue0(c *ssa.Const) Value {
	if c.Value == nil {
		return ex.zero(c.Type())
	}
	t := c.Type().Underlying()
	if b, ok := t.(*types.Basic); ok {
		if isString(b) {
			return Str{S: constantString(c)}
		}
		if isBool(b) {
			return ex.c.Bool(constantBool(c))
		}
		if w, signed, ok := intInfo(b); ok {
			if signed {
				return ex.c.Const(sym.BV(w), uint64(c.Int64()))
			}
			return ex.c.Const(sym.BV(w), c.Uint64())
		}
		if w, ok := isFloat(b); ok {
			return ex.c.FConst(sym.FP(w), c.Float64())
		}
	}
	unsupported("constant %v of type %v", c, c.Type())
	return nil
}

// call invokes fn (a *ssa.Function, *Closure or *ssa.Builtin).
func (ex *Exec) call(caller *frame, fn Value, args []Value, pos token.Pos) Value {
	switch fn := fn.(type) {
	case *ssa.Function:
		if fn == nil {
			ex.rtPanic(caller, "invalid memory address or nil pointer dereference (nil func call)")
		}
		return ex.callSSA(caller, fn, args, nil)
	case *Closure:
		return ex.callSSA(caller, fn.Fn, args, fn.Env)
	case *ssa.Builtin:
		return ex.callBuiltin(caller, fn, args, pos)
	case Poison:
		unsupported("call through poisoned value %s", fn.what)
	case poisonCall:
		return fn.p
	}
	internalErr("cannot call %T", fn)
	return nil
}

func (ex *Exec) callSSA(caller *frame, fn *ssa.Function, args []Value, env []Value) (result Value) {
	if fn.Synthetic == "package initializer" && fn.Pkg != nil && ex.SkipInit[fn.Pkg.Pkg.Path()] {
		return nil
	}
	if ex.initPhase && caller != nil && caller.fn.Synthetic == "package initializer" && fn.Synthetic != "package initializer" {
		// A package-level initialiser expression or init#k function that
		// reaches something unsupported leaves a poison value behind
		// instead of failing the whole run.
		depth := len(ex.callStack)
		defer func() {
			if e := recover(); e != nil {
				pe, ok := e.(pathEnd)
				if !ok || pe.kind != endUnsupported {
					panic(e)
				}
				ex.InitSkipped = append(ex.InitSkipped, fmt.Sprintf("%s: %s", fn, pe.detail))
				ex.callStack = ex.callStack[:depth]
				result = poisonResult(fn, pe.detail)
			}
		}()
	}
	fr := &frame{ex: ex, caller: caller, fn: fn}
	if fn.Parent() == nil || true {
		name := fn.String()
		if fn.Origin() != nil {
			name = fn.Origin().String()
		}
		if ext, ok := ex.Externals[name]; ok {
			ex.FuncsTouched[fn] = true
			return ext(ex, fr, args)
		}
	}
	if fn.Blocks == nil {
		unsupported("no SSA body for %s", fn)
	}
	if fn.TypeParams().Len() > 0 && len(fn.TypeArgs()) == 0 {
		unsupported("uninstantiated generic %s", fn)
	}
	if len(ex.callStack) > ex.MaxDepth {
		panic(pathEnd{endBudget, fmt.Sprintf("call depth > %d in %s", ex.MaxDepth, fn)})
	}
	fr.depth = len(ex.callStack)
	ex.callStack = append(ex.callStack, fn)
	fr.info = ex.info(fn)
	fr.regs = make([]Value, fr.info.nregs)
	for i, l := range fn.Locals {
		_ = i
		cell := ex.zero(deref(l.Type()))
		fr.regs[fr.info.idx[l]] = &cell
	}
	for i, p := range fn.Params {
		fr.regs[fr.info.idx[p]] = args[i]
	}
	for i, fv := range fn.FreeVars {
		fr.regs[fr.info.idx[fv]] = env[i]
	}
	fr.block = fn.Blocks[0]
	for fr.block != nil {
		ex.runFrame(fr)
	}
	ex.callStack = ex.callStack[:fr.depth]
	return fr.result
}

type poisonCall struct{ p Poison }

func poisonResult(fn *ssa.Function, why string) Value {
	n := fn.Signature.Results().Len()
	p := Poison{fn.String() + ": " + why}
	switch n {
	case 0:
		return nil
	case 1:
		return p
	}
	t := make(Tuple, n)
	for i := range t {
		t[i] = p
	}
	return t
}

// StackString renders the interpreted call stack (innermost last).
func (ex *Exec) StackString(max int) string {
	var parts []string
	cs := ex.callStack
	if len(cs) > max {
		cs = cs[len(cs)-max:]
	}
	for _, f := range cs {
		parts = append(parts, shortFn(f))
	}
	return strings.Join(parts, " > ")
}

func (ex *Exec) runFrame(fr *frame) {
	defer func() {
		if fr.block == nil {
			return // normal return
		}
		e := recover()
		if _, ok := e.(targetPanic); !ok {
			panic(e) // pathEnd or engine bug: propagate untouched
		}
		fr.panicking = true
		fr.panicVal = e
		ex.callStack = ex.callStack[:fr.depth+1]
		fr.runDefers()
		// recovered: resume at the Recover block (or return zero results)
		fr.block = fr.fn.Recover
		if fr.block == nil {
			// no named results: return zero values
			fr.result = ex.zero(fr.fn.Signature.Results())
			if fr.fn.Signature.Results().Len() == 0 {
				fr.result = nil
			}
		}
	}()
	for {
		b := fr.block
		first := fr.info.firstNonPhi[b]
		if first > 0 {
			pred := -1
			for i, p := range b.Preds {
				if p == fr.prev {
					pred = i
					break
				}
			}
			fr.phitmp = fr.phitmp[:0]
			for _, in := range b.Instrs[:first] {
				fr.phitmp = append(fr.phitmp, fr.get(in.(*ssa.Phi).Edges[pred]))
			}
			for i, in := range b.Instrs[:first] {
				fr.set(in.(*ssa.Phi), fr.phitmp[i])
			}
		}
		for _, in := range b.Instrs[first:] {
			ex.steps++
			if ex.steps > ex.MaxSteps {
				panic(pathEnd{endBudget, fmt.Sprintf("step budget %d exceeded in %s", ex.MaxSteps, fr.fn)})
			}
			if ex.Trace {
				if v, ok := in.(ssa.Value); ok {
					fmt.Fprintf(os.Stderr, "%s\t%s = %s\n", fr.fn.Name(), v.Name(), in)
				} else {
					fmt.Fprintf(os.Stderr, "%s\t%s\n", fr.fn.Name(), in)
				}
			}
			switch ex.visit(fr, in) {
			case kReturn:
				return
			case kJump:
				goto next
			}
		}
	next:
	}
}

func (fr *frame) runDefers() {
	for d := fr.defers; d != nil; d = fr.defers {
		fr.defers = d.tail
		fr.runDefer(d)
	}
	fr.defers = nil
	if fr.panicking {
		panic(fr.panicVal)
	}
}

func (fr *frame) runDefer(d *deferred) {
	ok := false
	defer func() {
		if !ok {
			e := recover()
			if _, isT := e.(targetPanic); !isT {
				panic(e)
			}
			fr.panicking = true
			fr.panicVal = e
		}
	}()
	fr.ex.call(fr, d.fn, d.args, d.pos)
	ok = true
}

// rtPanic raises a runtime fault in the interpreted program.
func (ex *Exec) rtPanic(fr *frame, msg string) {
	site := ""
	if fr != nil {
		site = fr.fn.String()
	}
	panic(targetPanic{v: Iface{T: ex.rtErrString, V: Str{S: msg}}, site: site, rt: true})
}

type cont int

const (
	kNext cont = iota
	kReturn
	kJump
)

func (ex *Exec) store(p *Value, v Value) {
	if ex.trailOn {
		ex.undo = append(ex.undo, undoRec{p: p, old: *p})
	}
	*p = v
}

func (ex *Exec) visit(fr *frame, instr ssa.Instruction) cont {
	switch in := instr.(type) {
	case *ssa.DebugRef:
	case *ssa.UnOp:
		fr.set(in, ex.unop(fr, in, fr.get(in.X)))
	case *ssa.BinOp:
		fr.set(in, ex.binop(fr, in.Op, in.X.Type(), fr.get(in.X), fr.get(in.Y), in))
	case *ssa.Call:
		fn, args := ex.prepareCall(fr, &in.Call)
		fr.set(in, ex.call(fr, fn, args, in.Pos()))
	case *ssa.ChangeInterface:
		fr.set(in, fr.get(in.X))
	case *ssa.ChangeType:
		fr.set(in, fr.get(in.X))
	case *ssa.Convert:
		fr.set(in, ex.conv(fr, in.Type(), in.X.Type(), fr.get(in.X)))
	case *ssa.SliceToArrayPointer:
		x := fr.get(in.X).(Slice)
		n := int(deref(in.Type()).Underlying().(*types.Array).Len())
		if n > len(x.A) {
			ex.rtPanic(fr, "cannot convert slice to array pointer: length too short")
		}
		if x.A == nil {
			fr.set(in, (*Value)(nil))
		} else {
			var cell Value = Array(x.A[:n:n])
			fr.set(in, &cell)
		}
	case *ssa.MakeInterface:
		fr.set(in, Iface{T: in.X.Type(), V: fr.get(in.X)})
	case *ssa.Extract:
		fr.set(in, fr.get(in.Tuple).(Tuple)[in.Index])
	case *ssa.Slice:
		fr.set(in, ex.sliceOp(fr, in))
	case *ssa.Return:
		switch len(in.Results) {
		case 0:
			fr.result = nil
		case 1:
			fr.result = fr.get(in.Results[0])
		default:
			res := make(Tuple, len(in.Results))
			for i, r := range in.Results {
				res[i] = fr.get(r)
			}
			fr.result = res
		}
		fr.block = nil
		return kReturn
	case *ssa.RunDefers:
		fr.runDefers()
	case *ssa.Panic:
		panic(targetPanic{v: fr.get(in.X), site: fr.site(in)})
	case *ssa.Store:
		p := ex.ptr(fr, fr.get(in.Addr))
		ex.store(p, copyVal(fr.get(in.Val)))
	case *ssa.If:
		c := fr.get(in.Cond).(*sym.Term)
		cur := fr.block
		thenB, elseB := cur.Succs[0], cur.Succs[1]
		last := cur
		if !c.IsConst() && ex.noPhis(fr, thenB) {
			// "case 'a', 'b', 'c':" is lowered to a chain of compare-and-branch
			// blocks with the same target: decide the disjunction once instead of
			// forking per listed value.
			for {
				nc, next, ok := ex.chainedCase(fr, elseB, thenB, last)
				if !ok {
					break
				}
				c = ex.c.Or(c, nc)
				last = elseB
				elseB = next
				if c.IsConst() {
					break
				}
			}
		}
		if ex.decide(c) {
			fr.prev, fr.block = last, thenB
		} else {
			fr.prev, fr.block = last, elseB
		}
		return kJump
	case *ssa.Jump:
		fr.prev, fr.block = fr.block, fr.block.Succs[0]
		return kJump
	case *ssa.Defer:
		fn, args := ex.prepareCall(fr, &in.Call)
		fr.defers = &deferred{fn: fn, args: args, tail: fr.defers, pos: in.Pos()}
	case *ssa.Go:
		unsupported("go statement at %s", fr.site(in))
	case *ssa.MakeChan:
		ex.chanSeq++
		n := ex.concreteInt(fr.get(in.Size).(*sym.Term), "make chan size")
		fr.set(in, &Chan{id: ex.chanSeq, capacity: int(n)})
	case *ssa.Send:
		ch, _ := fr.get(in.Chan).(*Chan)
		switch {
		case ch == nil:
			unsupported("send on nil channel at %s", fr.site(in))
		case ch.closed:
			ex.rtPanic(fr, "send on closed channel")
		case len(ch.buf) >= ch.capacity:
			unsupported("channel send would block (single goroutine) at %s", fr.site(in))
		}
		ch.buf = append(ch.buf, copyVal(fr.get(in.X)))
	case *ssa.Select:
		unsupported("select at %s", fr.site(in))
	case *ssa.Alloc:
		cell := ex.zero(deref(in.Type()))
		if in.Heap {
			fr.set(in, &cell)
		} else {
			// local: re-zero the existing cell (loops re-execute Alloc for non-escaping locals)
			p := fr.get(in).(*Value)
			ex.store(p, cell)
		}
	case *ssa.MakeSlice:
		ln := ex.concreteInt(fr.get(in.Len).(*sym.Term), "make len")
		cp := ex.concreteInt(fr.get(in.Cap).(*sym.Term), "make cap")
		if ln < 0 || cp < ln || cp > 1<<24 {
			ex.rtPanic(fr, "makeslice: len out of range")
		}
		elem := in.Type().Underlying().(*types.Slice).Elem()
		a := make([]Value, cp)
		if cp > 0 {
			z := ex.zero(elem)
			switch z.(type) {
			case Struct, Array:
				for i := range a {
					a[i] = ex.zero(elem)
				}
			default:
				for i := range a {
					a[i] = z
				}
			}
		}
		fr.set(in, Slice{A: a[:ln]})
	case *ssa.MakeMap:
		fr.set(in, &Map{T: in.Type().Underlying().(*types.Map), epoch: ex.epoch})
	case *ssa.Range:
		fr.set(in, ex.rangeIter(fr.get(in.X)))
	case *ssa.Next:
		fr.set(in, ex.next(fr, in, fr.get(in.Iter)))
	case *ssa.FieldAddr:
		p := ex.ptr(fr, fr.get(in.X))
		s, ok := (*p).(Struct)
		if !ok {
			ex.badCell(fr, *p, "FieldAddr")
		}
		fr.set(in, &s[in.Field])
	case *ssa.Field:
		fr.set(in, copyVal(fr.get(in.X).(Struct)[in.Field]))
	case *ssa.IndexAddr:
		x := fr.get(in.X)
		idx := fr.get(in.Index).(*sym.Term)
		switch x := x.(type) {
		case Slice:
			if !idx.IsConst() && scalarElems(x.A) {
				ex.boundsCheck(fr, idx, len(x.A), in.Index.Type())
				if _, known := ex.known(idx); !known {
					fr.set(in, SymElemPtr{Base: x.A, Idx: idx})
					break
				}
			}
			i := ex.index(fr, idx, len(x.A), in.Index.Type())
			fr.set(in, &x.A[i])
		case *Value:
			p := ex.ptr(fr, x)
			a, ok := (*p).(Array)
			if !ok {
				ex.badCell(fr, *p, "IndexAddr")
			}
			if !idx.IsConst() && scalarElems(a) {
				ex.boundsCheck(fr, idx, len(a), in.Index.Type())
				if _, known := ex.known(idx); !known {
					fr.set(in, SymElemPtr{Base: a, Idx: idx})
					break
				}
			}
			i := ex.index(fr, idx, len(a), in.Index.Type())
			fr.set(in, &a[i])
		default:
			ex.badCell(fr, x, "IndexAddr")
		}
	case *ssa.Index:
		x := fr.get(in.X)
		idx := fr.get(in.Index).(*sym.Term)
		switch x := x.(type) {
		case Array:
			fr.set(in, ex.indexRead(fr, x, idx, in.Index.Type(), in.Type()))
		case Str:
			fr.set(in, ex.strIndex(fr, x, idx, in.Index.Type()))
		default:
			ex.badCell(fr, x, "Index")
		}
	case *ssa.Lookup:
		x := fr.get(in.X)
		switch x := x.(type) {
		case Str:
			fr.set(in, ex.strIndex(fr, x, fr.get(in.Index).(*sym.Term), in.Index.Type()))
		case *Map:
			mt := in.X.Type().Underlying().(*types.Map)
			v, ok := ex.mapLookup(fr, x, mt, fr.get(in.Index))
			if !ok {
				v = ex.zero(mt.Elem())
			}
			if in.CommaOk {
				fr.set(in, Tuple{copyVal(v), ex.c.Bool(ok)})
			} else {
				fr.set(in, copyVal(v))
			}
		default:
			ex.badCell(fr, x, "Lookup")
		}
	case *ssa.MapUpdate:
		m, ok := fr.get(in.Map).(*Map)
		if !ok {
			ex.badCell(fr, fr.get(in.Map), "MapUpdate")
		}
		if m == nil {
			ex.rtPanic(fr, "assignment to entry in nil map")
		}
		ex.mapUpdate(fr, m, fr.get(in.Key), copyVal(fr.get(in.Value)))
	case *ssa.TypeAssert:
		fr.set(in, ex.typeAssert(fr, in, fr.get(in.X)))
	case *ssa.MakeClosure:
		env := make([]Value, len(in.Bindings))
		for i, b := range in.Bindings {
			env[i] = fr.get(b)
		}
		fr.set(in, &Closure{Fn: in.Fn.(*ssa.Function), Env: env})
	case *ssa.MultiConvert:
		unsupported("MultiConvert at %s", fr.site(in))
	default:
		unsupported("instruction %T at %s", instr, fr.site(instr))
	}
	return kNext
}

// scalarElems reports whether every element is a scalar term (so that a
// symbolic index can be read as an ite chain / table select).
func scalarElems(a []Value) bool {
	if len(a) == 0 || len(a) > 4096 {
		return false
	}
	for _, v := range a {
		if _, ok := v.(*sym.Term); !ok {
			return false
		}
	}
	return true
}

func (ex *Exec) noPhis(fr *frame, b *ssa.BasicBlock) bool {
	return fr.info.firstNonPhi[b] == 0
}

// chainedCase recognises a block of the form { t = x OP y ; if t goto target else next }
// whose only predecessor is pred; it evaluates the comparison (pure) and
// returns its condition and the else successor.
func (ex *Exec) chainedCase(fr *frame, b, target, pred *ssa.BasicBlock) (*sym.Term, *ssa.BasicBlock, bool) {
	if len(b.Preds) != 1 || b.Preds[0] != pred || len(b.Succs) != 2 || b.Succs[0] != target || b == target {
		return nil, nil, false
	}
	var bin *ssa.BinOp
	var iff *ssa.If
	for _, in := range b.Instrs {
		switch t := in.(type) {
		case *ssa.DebugRef:
		case *ssa.BinOp:
			if bin != nil {
				return nil, nil, false
			}
			bin = t
		case *ssa.If:
			iff = t
		default:
			return nil, nil, false
		}
	}
	if bin == nil || iff == nil || iff.Cond != ssa.Value(bin) {
		return nil, nil, false
	}
	switch bin.Op {
	case token.EQL, token.NEQ, token.LSS, token.LEQ, token.GTR, token.GEQ:
	default:
		return nil, nil, false
	}
	// operands must be scalars (no faults possible in a comparison of scalars)
	x, okx := fr.get(bin.X).(*sym.Term)
	y, oky := fr.get(bin.Y).(*sym.Term)
	if !okx || !oky {
		return nil, nil, false
	}
	v := ex.binop(fr, bin.Op, bin.X.Type(), x, y, bin).(*sym.Term)
	fr.set(bin, v)
	ex.steps += 2
	return v, b.Succs[1], true
}

func (ex *Exec) badCell(fr *frame, v Value, what string) {
	if p, ok := v.(Poison); ok {
		unsupported("use of uninitialised (skipped init) global %s in %s", p.what, fr.fn)
	}
	internalErr("%s on unexpected value %T in %s", what, v, fr.fn)
}

// ptr checks a pointer value for nil (raising the Go fault) and returns it.
func (ex *Exec) ptr(fr *frame, v Value) *Value {
	switch p := v.(type) {
	case *Value:
		if p == nil {
			ex.rtPanic(fr, "invalid memory address or nil pointer dereference")
		}
		return p
	case SymElemPtr:
		i := ex.concretize(p.Idx, "element address")
		return &p.Base[int(i)]
	case Poison:
		unsupported("use of uninitialised (skipped init) global %s in %s", p.what, fr.fn)
	}
	internalErr("pointer expected, got %T in %s", v, fr.fn)
	return nil
}

func (ex *Exec) prepareCall(fr *frame, call *ssa.CallCommon) (Value, []Value) {
	v := fr.get(call.Value)
	var args []Value
	var fn Value
	if call.Method == nil {
		fn = v
	} else {
		recv, ok := v.(Iface)
		if !ok {
			if po, isP := v.(Poison); isP && ex.initPhase {
				return poisonCall{po}, nil
			}
			ex.badCell(fr, v, "invoke")
		}
		if recv.T == nil {
			ex.rtPanic(fr, "invalid memory address or nil pointer dereference (method on nil interface)")
		}
		f := ex.Prog.LookupMethod(recv.T, call.Method.Pkg(), call.Method.Name())
		if f == nil {
			internalErr("method %s not found on %v", call.Method, recv.T)
		}
		fn = f
		args = append(args, recv.V)
	}
	for _, a := range call.Args {
		args = append(args, fr.get(a))
	}
	return fn, args
}

// ---------- helpers used by many instructions ----------

// concreteInt returns the value of t if constant; a symbolic value is
// concretised by forking over its feasible values (bounded).
func (ex *Exec) concreteInt(t *sym.Term, what string) int {
	if t.IsConst() {
		return int(int64(sextTo64(t)))
	}
	v := ex.concretize(t, what)
	return int(int64(v))
}

func sextTo64(t *sym.Term) uint64 {
	w := t.S.W
	if w >= 64 {
		return t.Val
	}
	sh := 64 - w
	return uint64(int64(t.Val<<sh) >> sh)
}

// index performs a bounds-checked index computation: returns a concrete
// index, forking on a symbolic one.
func (ex *Exec) index(fr *frame, idx *sym.Term, n int, it types.Type) int {
	if idx.IsConst() {
		i := int64(sextTo64(idx))
		if _, signed, _ := intInfo(it); !signed {
			i = int64(idx.Val)
			if idx.Val > uint64(1<<62) {
				i = -1
			}
		}
		if i < 0 || i >= int64(n) {
			ex.rtPanic(fr, fmt.Sprintf("index out of range [%d] with length %d", i, n))
		}
		return int(i)
	}
	ex.boundsCheck(fr, idx, n, it)
	return int(ex.concretize(idx, "index"))
}

// widenIdx extends an index of a narrow integer type to 64 bits.
func (ex *Exec) widenIdx(idx *sym.Term, it types.Type) *sym.Term {
	if idx.S.W >= 64 {
		return idx
	}
	if _, signed, _ := intInfo(it); signed {
		return ex.c.SExt(idx, 64)
	}
	return ex.c.ZExt(idx, 64)
}

// boundsCheck forks a fault path if idx may be outside [0,n).
func (ex *Exec) boundsCheck(fr *frame, idx *sym.Term, n int, it types.Type) {
	idx = ex.widenIdx(idx, it)
	in := ex.c.Cmp(sym.OULt, idx, ex.c.Const(sym.BV(64), uint64(n)))
	// unsigned compare also rejects negative signed values (they are huge unsigned)
	if !ex.decide(in) {
		ex.rtPanic(fr, fmt.Sprintf("index out of range [symbolic] with length %d", n))
	}
}

func (ex *Exec) strTable(s string) *sym.Table {
	if t, ok := ex.strTbl[s]; ok {
		return t
	}
	vals := make([]uint64, len(s))
	for i := 0; i < len(s); i++ {
		vals[i] = uint64(s[i])
	}
	t := ex.c.NewTable(vals, 8)
	ex.strTbl[s] = t
	return t
}

func (ex *Exec) strByte(s Str, i int) *sym.Term {
	if s.Sym != nil {
		return s.Sym[i]
	}
	return ex.c.Const(sym.BV(8), uint64(s.S[i]))
}

func (ex *Exec) checkOpaque(s Str) {
	if s.Opaque {
		unsupported("bytes of a formatted (fmt) string are inspected")
	}
}

func (ex *Exec) strIndex(fr *frame, s Str, idx *sym.Term, it types.Type) Value {
	ex.checkOpaque(s)
	n := s.Len()
	if idx.IsConst() {
		i := ex.index(fr, idx, n, it)
		return ex.strByte(s, i)
	}
	ex.boundsCheck(fr, idx, n, it)
	if s.Sym == nil {
		return ex.c.Select(ex.strTable(s.S), idx)
	}
	// ite chain over symbolic content
	return ex.iteChain(idx, n, func(i int) *sym.Term { return s.Sym[i] })
}

func (ex *Exec) iteChain(idx *sym.Term, n int, at func(int) *sym.Term) *sym.Term {
	if n > 4096 {
		unsupported("symbolic index into a sequence of %d elements", n)
	}
	// all constant? use a table
	allConst := true
	for i := 0; i < n; i++ {
		if !at(i).IsConst() {
			allConst = false
			break
		}
	}
	w := int(idx.S.W)
	if allConst && n > 0 && at(0).S.K != sym.KBool {
		vals := make([]uint64, n)
		for i := range vals {
			vals[i] = at(i).Val
		}
		sel := ex.c.Select(ex.c.NewTable(vals, int(at(0).S.W)), idx)
		if at(0).S.K == sym.KFP {
			return ex.c.BitsToFP(sel)
		}
		return sel
	}
	res := at(n - 1)
	for i := n - 2; i >= 0; i-- {
		res = ex.c.Ite(ex.c.Eq(idx, ex.c.Const(sym.BV(w), uint64(i))), at(i), res)
	}
	return res
}

func (ex *Exec) indexRead(fr *frame, a Array, idx *sym.Term, it types.Type, et types.Type) Value {
	if idx.IsConst() {
		return copyVal(a[ex.index(fr, idx, len(a), it)])
	}
	ex.boundsCheck(fr, idx, len(a), it)
	if len(a) > 0 {
		if _, ok := a[0].(*sym.Term); ok {
			return ex.iteChain(idx, len(a), func(i int) *sym.Term { return a[i].(*sym.Term) })
		}
	}
	return copyVal(a[int(ex.concretize(idx, "array index"))])
}

func (ex *Exec) sliceOp(fr *frame, in *ssa.Slice) Value {
	x := fr.get(in.X)
	geti := func(v ssa.Value, def int) int {
		if v == nil {
			return def
		}
		return ex.concreteInt(fr.get(v).(*sym.Term), "slice bound")
	}
	switch x := x.(type) {
	case Str:
		n := x.Len()
		lo := geti(in.Low, 0)
		hi := geti(in.High, n)
		if lo < 0 || hi < lo || hi > n {
			ex.rtPanic(fr, fmt.Sprintf("slice bounds out of range [%d:%d] with length %d", lo, hi, n))
		}
		if lo == 0 && hi == n {
			return x
		}
		ex.checkOpaque(x)
		if x.Sym != nil {
			return Str{Sym: x.Sym[lo:hi:hi]}
		}
		return Str{S: x.S[lo:hi]}
	case Slice:
		n, c := len(x.A), cap(x.A)
		lo := geti(in.Low, 0)
		hi := geti(in.High, n)
		mx := geti(in.Max, c)
		if lo < 0 || hi < lo || mx < hi || mx > c {
			ex.rtPanic(fr, fmt.Sprintf("slice bounds out of range [%d:%d:%d] with capacity %d", lo, hi, mx, c))
		}
		if x.A == nil {
			return Slice{}
		}
		return Slice{A: x.A[lo:hi:mx]}
	case *Value:
		p := ex.ptr(fr, x)
		a, ok := (*p).(Array)
		if !ok {
			ex.badCell(fr, *p, "Slice")
		}
		n := len(a)
		lo := geti(in.Low, 0)
		hi := geti(in.High, n)
		mx := geti(in.Max, n)
		if lo < 0 || hi < lo || mx < hi || mx > n {
			ex.rtPanic(fr, fmt.Sprintf("slice bounds out of range [%d:%d:%d] with length %d", lo, hi, mx, n))
		}
		return Slice{A: []Value(a)[lo:hi:mx]}
	}
	ex.badCell(fr, x, "Slice")
	return nil
}

func (ex *Exec) typeAssert(fr *frame, in *ssa.TypeAssert, xv Value) Value {
	x, ok := xv.(Iface)
	if !ok {
		ex.badCell(fr, xv, "TypeAssert")
	}
	var v Value
	good := false
	if x.T != nil {
		if it, isI := in.AssertedType.Underlying().(*types.Interface); isI {
			if types.Implements(x.T, it) {
				v = x
				good = true
			}
		} else if sameType(x.T, in.AssertedType) {
			v = copyVal(x.V)
			good = true
		}
	}
	if in.CommaOk {
		if !good {
			v = ex.zero(in.AssertedType)
		}
		return Tuple{v, ex.c.Bool(good)}
	}
	if !good {
		from := "nil"
		if x.T != nil {
			from = ex.typeString(x.T)
		}
		panic(targetPanic{v: Iface{T: ex.rtErrString, V: Str{S: fmt.Sprintf("interface conversion: interface is %s, not %s", from, ex.typeString(in.AssertedType))}}, site: fr.site(in), rt: true})
	}
	return v
}

func constantString(c *ssa.Const) string {
	return constantStringVal(c)
}

func shortFn(fn *ssa.Function) string {
	s := fn.String()
	return strings.TrimPrefix(s, "github.com/ohler55/ojg/")
}
