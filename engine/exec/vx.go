package exec

import (
	"fmt"
	"strconv"
	"go/token"
	"go/types"

	"golang.org/x/tools/go/ssa"

	"verif/engine/sym"
)

const VxPath = "github.com/ohler55/ojg/internal/vx"

func (ex *Exec) concreteStr(v Value, what string) string {
	s, ok := v.(Str)
	if !ok || !s.Concrete() || s.Opaque {
		internalErr("%s must be a concrete string", what)
	}
	return s.Go()
}

// NewInput creates a fresh symbolic input named after tag.
func (ex *Exec) NewInput(tag string, s sym.Sort) *sym.Term {
	n := ex.inputSeq[tag]
	ex.inputSeq[tag] = n + 1
	var suffix string
	switch s.K {
	case sym.KBool:
		suffix = "o"
	case sym.KBV:
		suffix = fmt.Sprintf("b%d", s.W)
	default:
		suffix = fmt.Sprintf("f%d", s.W)
	}
	name := fmt.Sprintf("%s_%d_%s", sanitize(tag), n, suffix)
	t := ex.c.Var(name, s)
	ex.inputs = append(ex.inputs, t)
	return t
}

func sanitize(s string) string {
	b := []byte(s)
	for i, c := range b {
		if !(c >= 'a' && c <= 'z' || c >= 'A' && c <= 'Z' || c >= '0' && c <= '9' || c == '_') {
			b[i] = '_'
		}
	}
	return string(b)
}

func installVx(ex *Exec) {
	E := ex.Externals
	p := VxPath + "."
	c := ex.c
	E[p+"Symbolic"] = func(ex *Exec, fr *frame, a []Value) Value { return c.T }
	E[p+"Param"] = func(ex *Exec, fr *frame, a []Value) Value {
		name := ex.concreteStr(a[0], "param name")
		if v, ok := ex.Params[name]; ok {
			return c.Const(sym.BV(64), uint64(int64(v)))
		}
		return a[1]
	}
	E[p+"Byte"] = func(ex *Exec, fr *frame, a []Value) Value {
		return ex.NewInput(ex.concreteStr(a[0], "tag"), sym.BV(8))
	}
	// ByteIn(tag, lo, hi): a symbolic byte in [lo,hi]; the range is also kept
	// for the executor's own interval reasoning so that comparisons the range
	// decides need no solver query.
	E[p+"ByteIn"] = func(ex *Exec, fr *frame, a []Value) Value {
		tag := ex.concreteStr(a[0], "tag")
		lo := uint64(ex.concreteInt(a[1].(*sym.Term), "lo")) & 0xff
		hi := uint64(ex.concreteInt(a[2].(*sym.Term), "hi")) & 0xff
		v := ex.NewInput(tag, sym.BV(8))
		ex.assume(c.And(c.Cmp(sym.OULe, c.Const(sym.BV(8), lo), v), c.Cmp(sym.OULe, v, c.Const(sym.BV(8), hi))))
		ex.varRange[v.ID] = [2]uint64{lo, hi}
		return v
	}
	// Digit(tag, lo): an ASCII decimal digit '0'+d with d a 4-bit variable in
	// [lo,9]; the small variable keeps interval reasoning about decimal
	// accumulations (x*10+d) tight.
	E[p+"Digit"] = func(ex *Exec, fr *frame, a []Value) Value {
		tag := ex.concreteStr(a[0], "tag")
		lo := uint64(ex.concreteInt(a[1].(*sym.Term), "lo"))
		v := ex.NewInput(tag, sym.BV(4))
		ex.assume(c.And(c.Cmp(sym.OULe, c.Const(sym.BV(4), lo), v), c.Cmp(sym.OULe, v, c.Const(sym.BV(4), 9))))
		ex.varRange[v.ID] = [2]uint64{lo, 9}
		return c.BinBV(sym.OAdd, c.Const(sym.BV(8), '0'), c.ZExt(v, 8))
	}
	E[p+"Bytes"] = func(ex *Exec, fr *frame, a []Value) Value {
		tag := ex.concreteStr(a[0], "tag")
		n := ex.concreteInt(a[1].(*sym.Term), "vx.Bytes n")
		out := make([]Value, n)
		for i := range out {
			out[i] = ex.NewInput(tag, sym.BV(8))
		}
		return Slice{A: out}
	}
	E[p+"String"] = func(ex *Exec, fr *frame, a []Value) Value {
		tag := ex.concreteStr(a[0], "tag")
		n := ex.concreteInt(a[1].(*sym.Term), "vx.String n")
		out := make([]*sym.Term, n)
		for i := range out {
			out[i] = ex.NewInput(tag, sym.BV(8))
		}
		if n == 0 {
			return Str{}
		}
		return Str{Sym: out}
	}
	mkInt := func(w int) External {
		return func(ex *Exec, fr *frame, a []Value) Value {
			return ex.NewInput(ex.concreteStr(a[0], "tag"), sym.BV(w))
		}
	}
	E[p+"Int"] = mkInt(64)
	E[p+"Int64"] = mkInt(64)
	E[p+"Uint64"] = mkInt(64)
	E[p+"Int32"] = mkInt(32)
	E[p+"Rune"] = mkInt(32)
	E[p+"Uint8"] = mkInt(8)
	// IntIn(tag, lo, hi): a symbolic int in [lo,hi] built from a narrow
	// variable, so that the term carries its range syntactically
	E[p+"IntIn"] = func(ex *Exec, fr *frame, a []Value) Value {
		tag := ex.concreteStr(a[0], "tag")
		lo := int64(ex.concreteInt(a[1].(*sym.Term), "lo"))
		hi := int64(ex.concreteInt(a[2].(*sym.Term), "hi"))
		w := 64
		for k := 2; k < 64; k++ {
			if lo >= -(int64(1)<<(k-1)) && hi <= int64(1)<<(k-1)-1 {
				w = k
				break
			}
		}
		v := ex.NewInput(tag, sym.BV(w))
		ex.assume(c.And(c.Cmp(sym.OSLe, c.Const(sym.BV(w), uint64(lo)), v), c.Cmp(sym.OSLe, v, c.Const(sym.BV(w), uint64(hi)))))
		return c.SExt(v, 64)
	}
	// FloatText(f): the text handed to strconv.ParseFloat that produced f
	// (engine: the tag of the uninterpreted ParseFloat result; ok=false if f is
	// not such a value). Natively: the shortest decimal that parses to f.
	E[p+"FloatText"] = func(ex *Exec, fr *frame, a []Value) Value {
		f := a[0].(*sym.Term)
		if txt, ok := ex.pfText[f.ID]; ok {
			return Tuple{ex.normStr(txt), c.T}
		}
		if f.IsConst() {
			return Tuple{Str{S: strconvFormat(sym.FloatOf(f))}, c.T}
		}
		return Tuple{Str{}, c.F}
	}
	E[p+"Bool"] = func(ex *Exec, fr *frame, a []Value) Value {
		return ex.NewInput(ex.concreteStr(a[0], "tag"), sym.Bool)
	}
	E[p+"Float64"] = func(ex *Exec, fr *frame, a []Value) Value {
		return ex.NewInput(ex.concreteStr(a[0], "tag"), sym.FP(64))
	}
	E[p+"Choose"] = func(ex *Exec, fr *frame, a []Value) Value {
		tag := ex.concreteStr(a[0], "tag")
		n := ex.concreteInt(a[1].(*sym.Term), "vx.Choose n")
		if n <= 0 {
			panic(pathEnd{endAssumeFalse, "Choose(0)"})
		}
		conds := make([]*sym.Term, n)
		for i := range conds {
			conds[i] = c.T
		}
		return c.Const(sym.BV(64), uint64(ex.branch(conds, tag)))
	}
	E[p+"Assume"] = func(ex *Exec, fr *frame, a []Value) Value {
		ex.assume(a[0].(*sym.Term))
		return nil
	}
	E[p+"Assert"] = func(ex *Exec, fr *frame, a []Value) Value {
		ex.checkAssert(ex.concreteStr(a[0], "assert id"), a[1].(*sym.Term))
		return nil
	}
	E[p+"Cover"] = func(ex *Exec, fr *frame, a []Value) Value {
		id := ex.concreteStr(a[0], "cover id")
		t := a[1].(*sym.Term)
		if t.IsFalse() {
			return nil
		}
		if ex.CoverDone != nil && ex.CoverDone(id) {
			return nil
		}
		if t.IsTrue() {
			ex.res.Covers = append(ex.res.Covers, id)
			return nil
		}
		if ex.pos < len(ex.trail) {
			return nil // already evaluated on an earlier path through this prefix
		}
		if v, ok := ex.evalBool(t); ok && v {
			ex.res.Covers = append(ex.res.Covers, id)
			return nil
		}
		func() {
			defer func() {
				if e := recover(); e != nil {
					if _, ok := e.(pathEnd); !ok {
						panic(e)
					}
				}
			}()
			if r, _ := ex.checkWith(t); r == 1 {
				ex.res.Covers = append(ex.res.Covers, id)
			}
		}()
		return nil
	}
	E[p+"Key"] = func(ex *Exec, fr *frame, a []Value) Value {
		k := ex.concreteStr(a[0], "key")
		v := ex.keyString(a[1])
		for i := range ex.res.Keys {
			if ex.res.Keys[i].K == k {
				ex.res.Keys[i].V = v
				return nil
			}
		}
		ex.res.Keys = append(ex.res.Keys, KV{k, v})
		return nil
	}
	E[p+"And"] = func(ex *Exec, fr *frame, a []Value) Value { return c.And(a[0].(*sym.Term), a[1].(*sym.Term)) }
	E[p+"Or"] = func(ex *Exec, fr *frame, a []Value) Value { return c.Or(a[0].(*sym.Term), a[1].(*sym.Term)) }
	E[p+"Not"] = func(ex *Exec, fr *frame, a []Value) Value { return c.Not(a[0].(*sym.Term)) }
	E[p+"Implies"] = func(ex *Exec, fr *frame, a []Value) Value {
		return c.Implies(a[0].(*sym.Term), a[1].(*sym.Term))
	}
	E[p+"Iff"] = func(ex *Exec, fr *frame, a []Value) Value { return c.Eq(a[0].(*sym.Term), a[1].(*sym.Term)) }
	E[p+"IteInt"] = func(ex *Exec, fr *frame, a []Value) Value {
		return c.Ite(a[0].(*sym.Term), a[1].(*sym.Term), a[2].(*sym.Term))
	}
	E[p+"IteByte"] = E[p+"IteInt"]
	E[p+"IteBool"] = E[p+"IteInt"]
	E[p+"BytesEq"] = func(ex *Exec, fr *frame, a []Value) Value {
		x, y := a[0].(Slice), a[1].(Slice)
		if len(x.A) != len(y.A) {
			return c.F
		}
		r := c.T
		for i := range x.A {
			r = c.And(r, c.Eq(x.A[i].(*sym.Term), y.A[i].(*sym.Term)))
		}
		return r
	}
	E[p+"StrEq"] = func(ex *Exec, fr *frame, a []Value) Value { return ex.strEq(a[0].(Str), a[1].(Str)) }
	E[p+"Catch"] = func(ex *Exec, fr *frame, a []Value) Value {
		pan, _ := ex.catch(fr, a[0])
		return c.Bool(pan)
	}
	E[p+"CatchVal"] = func(ex *Exec, fr *frame, a []Value) Value {
		pan, v := ex.catch(fr, a[0])
		if !pan {
			return Tuple{c.F, Iface{}}
		}
		return Tuple{c.T, v}
	}
	E[p+"IsRuntimeError"] = func(ex *Exec, fr *frame, a []Value) Value {
		iv, _ := a[0].(Iface)
		return c.Bool(iv.T != nil && sameType(iv.T, ex.rtErrString))
	}
	E[p+"Observe"] = func(ex *Exec, fr *frame, a []Value) Value {
		tag := ex.concreteStr(a[0], "observe tag")
		iv, _ := a[1].(Iface)
		var o Observation
		o.Tag = tag
		switch v := iv.V.(type) {
		case *sym.Term:
			o.Kind = "int"
			if v.S.K == sym.KBool {
				o.Kind = "bool"
			}
			o.Terms = []*sym.Term{v}
		case Str:
			if v.Opaque {
				return nil
			}
			o.Kind = "string"
			o.Terms = ex.strSym(v)
		case Slice:
			o.Kind = "bytes"
			for _, e := range v.A {
				t, ok := e.(*sym.Term)
				if !ok {
					return nil
				}
				o.Terms = append(o.Terms, t)
			}
		default:
			return nil
		}
		ex.res.observes = append(ex.res.observes, o)
		return nil
	}
	E[p+"Alias"] = func(ex *Exec, fr *frame, a []Value) Value {
		x, _ := a[0].(Iface)
		y, _ := a[1].(Iface)
		return c.Bool(aliases(x.V, y.V))
	}
	E[p+"Concrete"] = func(ex *Exec, fr *frame, a []Value) Value {
		// vx.Concrete(x int) int: fork over the feasible values of x
		t := a[0].(*sym.Term)
		return c.Const(t.S, ex.concretize(t, "vx.Concrete"))
	}
	E[p+"Fail"] = func(ex *Exec, fr *frame, a []Value) Value {
		ex.checkAssert(ex.concreteStr(a[0], "assert id"), c.F)
		return nil
	}
	E[p+"PoolFork"] = func(ex *Exec, fr *frame, a []Value) Value {
		ex.PoolFork = a[0].(*sym.Term).IsTrue()
		return nil
	}
	E[p+"MapOrders"] = func(ex *Exec, fr *frame, a []Value) Value {
		if a[0].(*sym.Term).IsTrue() {
			ex.MapOrder = permuteMapOrder
		} else {
			ex.MapOrder = nil
		}
		return nil
	}
}

func strconvFormat(f float64) string { return strconv.FormatFloat(f, 'g', -1, 64) }

// permuteMapOrder forks over every iteration order of maps with ≤ 3
// entries (rotation only above that).
func permuteMapOrder(ex *Exec, ents []*mapEntry) []*mapEntry {
	n := len(ents)
	if n > 3 {
		conds := make([]*sym.Term, n)
		for i := range conds {
			conds[i] = ex.c.T
		}
		r := ex.branch(conds, "")
		out := append(append([]*mapEntry{}, ents[r:]...), ents[:r]...)
		return out
	}
	perms := [][]int{{0, 1}, {1, 0}}
	if n == 3 {
		perms = [][]int{{0, 1, 2}, {0, 2, 1}, {1, 0, 2}, {1, 2, 0}, {2, 0, 1}, {2, 1, 0}}
	}
	conds := make([]*sym.Term, len(perms))
	for i := range conds {
		conds[i] = ex.c.T
	}
	p := perms[ex.branch(conds, "")]
	out := make([]*mapEntry, n)
	for i, j := range p {
		out[i] = ents[j]
	}
	return out
}

func (ex *Exec) keyString(v Value) string {
	if iv, ok := v.(Iface); ok {
		v = iv.V
	}
	switch v := v.(type) {
	case *sym.Term:
		if v.IsConst() {
			if v.S.K == sym.KBool {
				return fmt.Sprint(v.Val == 1)
			}
			return fmt.Sprint(int64(sextTo64(v)))
		}
		return "<sym>"
	case Str:
		if v.Concrete() && !v.Opaque {
			return v.Go()
		}
		return "<sym>"
	case nil:
		return "nil"
	}
	return fmt.Sprintf("<%T>", v)
}

// catch runs the closure f and reports whether it panicked (target panic).
func (ex *Exec) catch(fr *frame, f Value) (panicked bool, val Value) {
	depth := len(ex.callStack)
	defer func() {
		if e := recover(); e != nil {
			tp, ok := e.(targetPanic)
			if !ok {
				panic(e)
			}
			ex.callStack = ex.callStack[:depth]
			panicked = true
			val = tp.v
			ex.res.LastPanic = fmt.Sprintf("%s at %s", describe(tp.v), tp.site)
		}
	}()
	ex.call(fr, f, nil, token.NoPos)
	return false, nil
}

func aliases(x, y Value) bool {
	switch xv := x.(type) {
	case Slice:
		yv, ok := y.(Slice)
		if !ok || cap(xv.A) == 0 || cap(yv.A) == 0 {
			return false
		}
		// same backing array iff the last elements of the full-capacity views coincide
		xa, ya := xv.A[:cap(xv.A)], yv.A[:cap(yv.A)]
		return &xa[len(xa)-1] == &ya[len(ya)-1]
	case *Map:
		yv, ok := y.(*Map)
		return ok && xv == yv && xv != nil
	case *Value:
		yv, ok := y.(*Value)
		return ok && xv == yv && xv != nil
	}
	return false
}

var _ = types.Typ
var _ *ssa.Function
