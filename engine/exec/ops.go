package exec

import (
	"fmt"
	"go/constant"
	"go/token"
	"go/types"

	"golang.org/x/tools/go/ssa"

	"verif/engine/sym"
)

func constantStringVal(c *ssa.Const) string { return constant.StringVal(c.Value) }
func constantBool(c *ssa.Const) bool        { return constant.BoolVal(c.Value) }

func (ex *Exec) unop(fr *frame, in *ssa.UnOp, x Value) Value {
	switch in.Op {
	case token.MUL: // load
		if sp, ok := x.(SymElemPtr); ok {
			if _, known := ex.known(sp.Idx); !known {
				return ex.iteChain(sp.Idx, len(sp.Base), func(i int) *sym.Term { return sp.Base[i].(*sym.Term) })
			}
		}
		p := ex.ptr(fr, x)
		v := *p
		if po, ok := v.(Poison); ok {
			unsupported("read of uninitialised (skipped init) global %s in %s", po.what, fr.fn)
		}
		return copyVal(v)
	case token.SUB:
		t := x.(*sym.Term)
		if t.S.K == sym.KFP {
			return ex.c.FNeg(t)
		}
		return ex.c.Neg(t)
	case token.NOT:
		return ex.c.Not(x.(*sym.Term))
	case token.XOR:
		return ex.c.BNot(x.(*sym.Term))
	case token.ARROW:
		ch, _ := x.(*Chan)
		u := in
		var v Value
		ok := true
		switch {
		case ch == nil:
			unsupported("receive from nil channel at %s", fr.site(in))
		case len(ch.buf) > 0:
			v = ch.buf[0]
			ch.buf = ch.buf[1:]
		case ch.closed:
			v, ok = ex.zero(u.X.Type().Underlying().(*types.Chan).Elem()), false
		default:
			unsupported("channel receive would block (single goroutine) at %s", fr.site(in))
		}
		if u.CommaOk {
			return Tuple{v, ex.c.Bool(ok)}
		}
		return v
	}
	unsupported("unary op %v", in.Op)
	return nil
}

func (ex *Exec) binop(fr *frame, op token.Token, t types.Type, x, y Value, in ssa.Instruction) Value {
	c := ex.c
	switch xv := x.(type) {
	case *sym.Term:
		yv, ok := y.(*sym.Term)
		if !ok {
			ex.badCell(fr, y, "binop")
		}
		if xv.S.K == sym.KFP {
			return ex.fbinop(op, xv, yv)
		}
		if xv.S.K == sym.KBool {
			switch op {
			case token.EQL:
				return c.Eq(xv, yv)
			case token.NEQ:
				return c.Not(c.Eq(xv, yv))
			case token.AND, token.LAND:
				return c.And(xv, yv)
			case token.OR, token.LOR:
				return c.Or(xv, yv)
			}
			unsupported("bool binop %v", op)
		}
		w, signed, _ := intInfo(t)
		_ = w
		switch op {
		case token.ADD:
			return c.BinBV(sym.OAdd, xv, yv)
		case token.SUB:
			return c.BinBV(sym.OSub, xv, yv)
		case token.MUL:
			return c.BinBV(sym.OMul, xv, yv)
		case token.QUO, token.REM:
			zero := c.Const(yv.S, 0)
			if ex.decide(c.Eq(yv, zero)) {
				ex.rtPanic(fr, "integer divide by zero")
			}
			if signed {
				if op == token.QUO {
					return c.BinBV(sym.OSDiv, xv, yv)
				}
				return c.BinBV(sym.OSRem, xv, yv)
			}
			if op == token.QUO {
				return c.BinBV(sym.OUDiv, xv, yv)
			}
			return c.BinBV(sym.OURem, xv, yv)
		case token.AND:
			return c.BinBV(sym.OBAnd, xv, yv)
		case token.OR:
			return c.BinBV(sym.OBOr, xv, yv)
		case token.XOR:
			return c.BinBV(sym.OBXor, xv, yv)
		case token.AND_NOT:
			return c.BinBV(sym.OBAnd, xv, c.BNot(yv))
		case token.SHL, token.SHR:
			// shift count has its own type: normalise to x's width
			yt := in.(*ssa.BinOp).Y.Type()
			_, ysigned, _ := intInfo(yt)
			if ysigned && !yv.IsConst() {
				if ex.decide(c.Cmp(sym.OSLt, yv, c.Const(yv.S, 0))) {
					ex.rtPanic(fr, "negative shift amount")
				}
			} else if ysigned && int64(sextTo64(yv)) < 0 {
				ex.rtPanic(fr, "negative shift amount")
			}
			var cnt *sym.Term
			xw := int(xv.S.W)
			if int(yv.S.W) > xw {
				// saturate large counts
				big := c.Cmp(sym.OULe, c.Const(yv.S, uint64(xw)), yv)
				cnt = c.Ite(big, c.Const(xv.S, uint64(xw)), c.Extract(yv, xw-1, 0))
			} else {
				cnt = c.ZExt(yv, xw)
			}
			if op == token.SHL {
				return c.BinBV(sym.OShl, xv, cnt)
			}
			if signed {
				return c.BinBV(sym.OAShr, xv, cnt)
			}
			return c.BinBV(sym.OLShr, xv, cnt)
		case token.EQL:
			return c.Eq(xv, yv)
		case token.NEQ:
			return c.Not(c.Eq(xv, yv))
		case token.LSS:
			if signed {
				return c.Cmp(sym.OSLt, xv, yv)
			}
			return c.Cmp(sym.OULt, xv, yv)
		case token.LEQ:
			if signed {
				return c.Cmp(sym.OSLe, xv, yv)
			}
			return c.Cmp(sym.OULe, xv, yv)
		case token.GTR:
			if signed {
				return c.Cmp(sym.OSLt, yv, xv)
			}
			return c.Cmp(sym.OULt, yv, xv)
		case token.GEQ:
			if signed {
				return c.Cmp(sym.OSLe, yv, xv)
			}
			return c.Cmp(sym.OULe, yv, xv)
		}
		unsupported("integer binop %v", op)
	case Str:
		yv := y.(Str)
		switch op {
		case token.ADD:
			return ex.strConcat(xv, yv)
		case token.EQL:
			return ex.strEq(xv, yv)
		case token.NEQ:
			return c.Not(ex.strEq(xv, yv))
		case token.LSS:
			return ex.strLess(xv, yv, false)
		case token.LEQ:
			return ex.strLess(xv, yv, true)
		case token.GTR:
			return ex.strLess(yv, xv, false)
		case token.GEQ:
			return ex.strLess(yv, xv, true)
		}
		unsupported("string binop %v", op)
	}
	switch op {
	case token.EQL:
		return ex.equal(fr, t, x, y)
	case token.NEQ:
		return c.Not(ex.equal(fr, t, x, y))
	}
	unsupported("binop %v on %T", op, x)
	return nil
}

func (ex *Exec) fbinop(op token.Token, x, y *sym.Term) Value {
	c := ex.c
	switch op {
	case token.ADD:
		return c.FBin(sym.OFAdd, x, y)
	case token.SUB:
		return c.FBin(sym.OFSub, x, y)
	case token.MUL:
		return c.FBin(sym.OFMul, x, y)
	case token.QUO:
		return c.FBin(sym.OFDiv, x, y)
	case token.EQL:
		return c.FCmp(sym.OFEq, x, y)
	case token.NEQ:
		return c.Not(c.FCmp(sym.OFEq, x, y))
	case token.LSS:
		return c.FCmp(sym.OFLt, x, y)
	case token.LEQ:
		return c.FCmp(sym.OFLe, x, y)
	case token.GTR:
		return c.FCmp(sym.OFLt, y, x)
	case token.GEQ:
		return c.FCmp(sym.OFLe, y, x)
	}
	unsupported("float binop %v", op)
	return nil
}

// ---------- strings ----------

func (ex *Exec) strSym(s Str) []*sym.Term {
	if s.Sym != nil {
		return s.Sym
	}
	out := make([]*sym.Term, len(s.S))
	for i := 0; i < len(s.S); i++ {
		out[i] = ex.c.Const(sym.BV(8), uint64(s.S[i]))
	}
	return out
}

func (ex *Exec) normStr(syms []*sym.Term) Str {
	for _, t := range syms {
		if !t.IsConst() {
			return Str{Sym: syms}
		}
	}
	b := make([]byte, len(syms))
	for i, t := range syms {
		b[i] = byte(t.Val)
	}
	return Str{S: string(b)}
}

func (ex *Exec) strConcat(a, b Str) Str {
	if a.Opaque || b.Opaque {
		return Str{S: "<fmt>", Opaque: true}
	}
	if a.Len() == 0 {
		return b
	}
	if b.Len() == 0 {
		return a
	}
	if a.Sym == nil && b.Sym == nil {
		return Str{S: a.S + b.S}
	}
	out := make([]*sym.Term, 0, a.Len()+b.Len())
	out = append(out, ex.strSym(a)...)
	out = append(out, ex.strSym(b)...)
	return Str{Sym: out}
}

func (ex *Exec) strEq(a, b Str) *sym.Term {
	if a.Opaque || b.Opaque {
		unsupported("comparison of a formatted (fmt) string")
	}
	if a.Len() != b.Len() {
		return ex.c.F
	}
	if a.Sym == nil && b.Sym == nil {
		return ex.c.Bool(a.S == b.S)
	}
	r := ex.c.T
	for i := a.Len() - 1; i >= 0; i-- {
		r = ex.c.And(ex.c.Eq(ex.strByte(a, i), ex.strByte(b, i)), r)
		if r.IsFalse() {
			return r
		}
	}
	return r
}

// strLess is a < b (or a <= b) lexicographically, bytewise.
func (ex *Exec) strLess(a, b Str, orEq bool) *sym.Term {
	if a.Opaque || b.Opaque {
		unsupported("comparison of a formatted (fmt) string")
	}
	if a.Sym == nil && b.Sym == nil {
		if orEq {
			return ex.c.Bool(a.S <= b.S)
		}
		return ex.c.Bool(a.S < b.S)
	}
	n := a.Len()
	if b.Len() < n {
		n = b.Len()
	}
	// result if common prefix equal
	var r *sym.Term
	if a.Len() < b.Len() {
		r = ex.c.T
	} else if a.Len() == b.Len() {
		r = ex.c.Bool(orEq)
	} else {
		r = ex.c.F
	}
	for i := n - 1; i >= 0; i-- {
		x, y := ex.strByte(a, i), ex.strByte(b, i)
		r = ex.c.Ite(ex.c.Eq(x, y), r, ex.c.Cmp(sym.OULt, x, y))
	}
	return r
}

// ---------- equality ----------

func (ex *Exec) equal(fr *frame, t types.Type, x, y Value) *sym.Term {
	c := ex.c
	switch xv := x.(type) {
	case *sym.Term:
		yv := y.(*sym.Term)
		if xv.S.K == sym.KFP {
			return c.FCmp(sym.OFEq, xv, yv)
		}
		return c.Eq(xv, yv)
	case Str:
		return ex.strEq(xv, y.(Str))
	case *Value:
		return c.Bool(xv == y.(*Value))
	case *Map:
		return c.Bool(xv == y.(*Map))
	case *Chan:
		return c.Bool(xv == y.(*Chan))
	case Slice:
		yv := y.(Slice)
		// only comparison with nil is legal
		if yv.A == nil {
			return c.Bool(xv.A == nil)
		}
		if xv.A == nil {
			return c.Bool(yv.A == nil)
		}
		internalErr("slice comparison")
	case *ssa.Function, *Closure, *ssa.Builtin:
		return c.Bool(isNilFunc(x) == isNilFunc(y) && isNilFunc(x))
	case UnsafePtr:
		yv := y.(UnsafePtr)
		return c.Bool(xv.P == yv.P)
	case RTypeVal:
		yv, ok := y.(RTypeVal)
		return c.Bool(ok && types.Identical(xv.T, yv.T))
	case Iface:
		yv, ok := y.(Iface)
		if !ok {
			ex.badCell(fr, y, "iface ==")
		}
		if xv.T == nil || yv.T == nil {
			return c.Bool(xv.T == nil && yv.T == nil)
		}
		if !sameType(xv.T, yv.T) {
			return c.F
		}
		if !types.Comparable(xv.T) {
			panic(targetPanic{v: Iface{T: ex.rtErrString, V: Str{S: "comparing uncomparable type " + ex.typeString(xv.T)}}, site: fr.fn.String(), rt: true})
		}
		return ex.equal(fr, xv.T, xv.V, yv.V)
	case Struct:
		yv := y.(Struct)
		st := t.Underlying().(*types.Struct)
		r := c.T
		for i := range xv {
			if st.Field(i).Name() == "_" {
				continue
			}
			r = c.And(r, ex.equal(fr, st.Field(i).Type(), xv[i], yv[i]))
		}
		return r
	case Array:
		yv := y.(Array)
		et := t.Underlying().(*types.Array).Elem()
		r := c.T
		for i := range xv {
			r = c.And(r, ex.equal(fr, et, xv[i], yv[i]))
		}
		return r
	}
	unsupported("equality on %T", x)
	return nil
}

func isNilFunc(v Value) bool {
	switch f := v.(type) {
	case *ssa.Function:
		return f == nil
	case *Closure:
		return f == nil
	case *ssa.Builtin:
		return f == nil
	}
	return false
}

// ---------- conversions ----------

func (ex *Exec) conv(fr *frame, dst, src types.Type, x Value) Value {
	c := ex.c
	ud, us := dst.Underlying(), src.Underlying()
	// unsafe.Pointer
	if b, ok := ud.(*types.Basic); ok && b.Kind() == types.UnsafePointer {
		switch xv := x.(type) {
		case *Value:
			return UnsafePtr{P: xv, Elem: deref(src)}
		case UnsafePtr:
			return xv
		case *sym.Term:
			unsupported("uintptr -> unsafe.Pointer conversion")
		}
	}
	if b, ok := us.(*types.Basic); ok && b.Kind() == types.UnsafePointer {
		up := x.(UnsafePtr)
		if _, isPtr := ud.(*types.Pointer); isPtr {
			return ex.unsafeCast(fr, up, deref(dst))
		}
		unsupported("unsafe.Pointer -> %v conversion", dst)
	}
	switch xv := x.(type) {
	case *sym.Term:
		if xv.S.K == sym.KFP {
			if w, ok := isFloat(ud); ok {
				return c.FPToFP(xv, sym.FP(w))
			}
			if w, signed, ok := intInfo(ud); ok {
				return c.FPToInt(xv, signed, w)
			}
			unsupported("float conversion to %v", dst)
		}
		if xv.S.K == sym.KBool {
			return xv
		}
		_, ssigned, _ := intInfo(us)
		if w, _, ok := intInfo(ud); ok {
			if ssigned {
				return c.SExt(xv, w)
			}
			return c.ZExt(xv, w)
		}
		if w, ok := isFloat(ud); ok {
			return c.IntToFP(xv, ssigned, sym.FP(w))
		}
		if isString(ud) {
			// string(rune)
			return ex.runeToString(fr, xv, ssigned)
		}
		unsupported("integer conversion to %v", dst)
	case Str:
		if sl, ok := ud.(*types.Slice); ok {
			ex.checkOpaque(xv)
			eb, _ := sl.Elem().Underlying().(*types.Basic)
			if eb != nil && eb.Kind() == types.Uint8 {
				syms := ex.strSym(xv)
				a := make([]Value, len(syms))
				for i, t := range syms {
					a[i] = t
				}
				if a == nil {
					a = []Value{}
				}
				return Slice{A: a}
			}
			if eb != nil && eb.Kind() == types.Int32 {
				// []rune(s): decode via utf8 from source
				return ex.stringToRunes(fr, xv)
			}
		}
		if isString(ud) {
			return xv
		}
	case Slice:
		if isString(ud) {
			sl := us.(*types.Slice)
			eb, _ := sl.Elem().Underlying().(*types.Basic)
			if eb != nil && eb.Kind() == types.Uint8 {
				syms := make([]*sym.Term, len(xv.A))
				for i, v := range xv.A {
					syms[i] = v.(*sym.Term)
				}
				return ex.normStr(syms)
			}
			if eb != nil && eb.Kind() == types.Int32 {
				s := Str{}
				for _, v := range xv.A {
					s = ex.strConcat(s, ex.runeToString(fr, v.(*sym.Term), true))
				}
				return s
			}
		}
	}
	unsupported("conversion %v -> %v (%T)", src, dst, x)
	return nil
}

// runeToString implements string(rune) by forking on the encoded length.
func (ex *Exec) runeToString(fr *frame, r *sym.Term, signed bool) Str {
	c := ex.c
	r = func() *sym.Term {
		if signed {
			return c.SExt(r, 32)
		}
		if r.S.W > 32 {
			// values above MaxRune become U+FFFD
			if ex.decide(c.Cmp(sym.OULt, c.Const(r.S, 0x10FFFF), r)) {
				return c.Const(sym.BV(32), 0xFFFD)
			}
		}
		return c.ZExt(r, 32)
	}()
	k := func(v uint64) *sym.Term { return c.Const(sym.BV(32), v) }
	b8 := func(t *sym.Term) *sym.Term { return c.Extract(t, 7, 0) }
	or := func(a *sym.Term, v uint64) *sym.Term { return c.BinBV(sym.OBOr, a, k(v)) }
	and := func(a *sym.Term, v uint64) *sym.Term { return c.BinBV(sym.OBAnd, a, k(v)) }
	shr := func(a *sym.Term, n uint64) *sym.Term { return c.BinBV(sym.OLShr, a, k(n)) }
	bad := func() Str { return Str{S: "�"} }
	if ex.decide(c.Cmp(sym.OSLt, r, k(0))) {
		return bad()
	}
	if ex.decide(c.Cmp(sym.OULt, r, k(0x80))) {
		return ex.normStr([]*sym.Term{b8(r)})
	}
	if ex.decide(c.Cmp(sym.OULt, r, k(0x800))) {
		return ex.normStr([]*sym.Term{b8(or(shr(r, 6), 0xC0)), b8(or(and(r, 0x3F), 0x80))})
	}
	if ex.decide(c.And(c.Cmp(sym.OULe, k(0xD800), r), c.Cmp(sym.OULe, r, k(0xDFFF)))) {
		return bad()
	}
	if ex.decide(c.Cmp(sym.OULt, r, k(0x10000))) {
		return ex.normStr([]*sym.Term{b8(or(shr(r, 12), 0xE0)), b8(or(and(shr(r, 6), 0x3F), 0x80)), b8(or(and(r, 0x3F), 0x80))})
	}
	if ex.decide(c.Cmp(sym.OULt, k(0x10FFFF), r)) {
		return bad()
	}
	return ex.normStr([]*sym.Term{b8(or(shr(r, 18), 0xF0)), b8(or(and(shr(r, 12), 0x3F), 0x80)), b8(or(and(shr(r, 6), 0x3F), 0x80)), b8(or(and(r, 0x3F), 0x80))})
}

func (ex *Exec) stringToRunes(fr *frame, s Str) Value {
	out := []Value{}
	i := 0
	for i < s.Len() {
		r, n := ex.decodeRune(fr, s, i)
		out = append(out, r)
		i += n
	}
	return Slice{A: out}
}

// decodeRune decodes the rune at s[i:] by running utf8.DecodeRuneInString
// from source on the suffix (forks on symbolic bytes).
func (ex *Exec) decodeRune(fr *frame, s Str, i int) (*sym.Term, int) {
	if s.Sym == nil {
		// concrete
		for j, r := range s.S[i:] {
			_ = j
			n := len(string(r))
			if r == 0xFFFD {
				// could be an invalid byte (width 1) or a real U+FFFD (width 3)
				if len(s.S[i:]) >= 3 && s.S[i:i+3] == "�" {
					n = 3
				} else {
					n = 1
				}
			}
			return ex.c.Const(sym.BV(32), uint64(uint32(r))), n
		}
	}
	pkg := ex.Prog.ImportedPackage("unicode/utf8")
	if pkg == nil {
		unsupported("unicode/utf8 not loaded")
	}
	f := pkg.Func("DecodeRuneInString")
	var suffix Str
	if s.Sym != nil {
		suffix = Str{Sym: s.Sym[i:]}
	} else {
		suffix = Str{S: s.S[i:]}
	}
	res := ex.call(fr, f, []Value{suffix}, token.NoPos).(Tuple)
	n := ex.concreteInt(res[1].(*sym.Term), "rune width")
	return res[0].(*sym.Term), n
}

// ---------- maps ----------

func (ex *Exec) mapSnapshot(m *Map) {
	if !ex.trailOn || m.epoch == ex.epoch {
		return
	}
	ex.undo = append(ex.undo, undoRec{m: m, ent: append([]*mapEntry(nil), m.entries...)})
	m.epoch = ex.epoch
}

func (ex *Exec) mapFind(fr *frame, m *Map, kt types.Type, key Value) int {
	if m == nil {
		return -1
	}
	// check hashability of interface keys
	if ik, ok := key.(Iface); ok && ik.T != nil && !types.Comparable(ik.T) {
		panic(targetPanic{v: Iface{T: ex.rtErrString, V: Str{S: "hash of unhashable type " + ex.typeString(ik.T)}}, site: fr.fn.String(), rt: true})
	}
	for i, e := range m.entries {
		eq := ex.equal(fr, kt, e.key, key)
		if eq.IsFalse() {
			continue
		}
		if eq.IsTrue() || ex.decide(eq) {
			return i
		}
	}
	return -1
}

func (ex *Exec) mapLookup(fr *frame, m *Map, mt *types.Map, key Value) (Value, bool) {
	i := ex.mapFind(fr, m, mt.Key(), key)
	if i < 0 {
		return nil, false
	}
	return m.entries[i].val, true
}

func (ex *Exec) mapUpdate(fr *frame, m *Map, key, val Value) {
	i := ex.mapFind(fr, m, m.T.Key(), key)
	ex.mapSnapshot(m)
	if i >= 0 {
		old := m.entries[i]
		ne := append([]*mapEntry(nil), m.entries...)
		ne[i] = &mapEntry{id: old.id, key: old.key, val: val}
		m.entries = ne
		return
	}
	m.nextID++
	m.entries = append(m.entries[:len(m.entries):len(m.entries)], &mapEntry{id: m.nextID, key: key, val: val})
}

func (ex *Exec) mapDelete(fr *frame, m *Map, key Value) {
	if m == nil {
		return
	}
	i := ex.mapFind(fr, m, m.T.Key(), key)
	if i < 0 {
		return
	}
	ex.mapSnapshot(m)
	ne := make([]*mapEntry, 0, len(m.entries)-1)
	ne = append(ne, m.entries[:i]...)
	ne = append(ne, m.entries[i+1:]...)
	m.entries = ne
}

// ---------- range ----------

func (ex *Exec) rangeIter(x Value) Value {
	switch x := x.(type) {
	case *Map:
		it := &mapIter{m: x}
		if x != nil {
			it.snap = x.entries
			if ex.MapOrder != nil && len(it.snap) > 1 {
				it.snap = ex.MapOrder(ex, it.snap)
			}
		}
		return it
	case Str:
		ex.checkOpaque(x)
		return &strIter{s: x}
	}
	unsupported("range over %T", x)
	return nil
}

func (ex *Exec) next(fr *frame, in *ssa.Next, it Value) Value {
	switch it := it.(type) {
	case *mapIter:
		for it.i < len(it.snap) {
			e := it.snap[it.i]
			it.i++
			// still present?
			for _, cur := range it.m.entries {
				if cur.id == e.id {
					return Tuple{ex.c.T, copyVal(cur.key), copyVal(cur.val)}
				}
			}
		}
		var k, v Value
		if it.m != nil {
			k, v = ex.zero(it.m.T.Key()), ex.zero(it.m.T.Elem())
		} else {
			tt := in.Type().(*types.Tuple)
			k, v = ex.zeroOrNil(tt.At(1).Type()), ex.zeroOrNil(tt.At(2).Type())
		}
		return Tuple{ex.c.F, k, v}
	case *strIter:
		if it.i >= it.s.Len() {
			return Tuple{ex.c.F, ex.c.Const(sym.BV(64), 0), ex.c.Const(sym.BV(32), 0)}
		}
		i := it.i
		r, n := ex.decodeRune(fr, it.s, i)
		it.i += n
		return Tuple{ex.c.T, ex.c.Const(sym.BV(64), uint64(i)), r}
	}
	internalErr("next on %T", it)
	return nil
}

func (ex *Exec) zeroOrNil(t types.Type) Value {
	if b, ok := t.(*types.Basic); ok && b.Kind() == types.Invalid {
		return nil
	}
	return ex.zero(t)
}

// ---------- builtins ----------

func (ex *Exec) callBuiltin(fr *frame, fn *ssa.Builtin, args []Value, pos token.Pos) Value {
	c := ex.c
	switch fn.Name() {
	case "append":
		if len(args) == 1 {
			return args[0]
		}
		dst := args[0].(Slice)
		var src []Value
		switch s := args[1].(type) {
		case Str:
			ex.checkOpaque(s)
			for _, t := range ex.strSym(s) {
				src = append(src, t)
			}
		case Slice:
			src = s.A
		default:
			ex.badCell(fr, args[1], "append")
		}
		if len(src) == 0 {
			return dst
		}
		elemT := fn.Type().(*types.Signature).Params().At(0).Type().Underlying().(*types.Slice).Elem()
		return ex.appendVals(dst, src, elemT)
	case "copy":
		dst := args[0].(Slice)
		var src []Value
		switch s := args[1].(type) {
		case Str:
			ex.checkOpaque(s)
			for _, t := range ex.strSym(s) {
				src = append(src, t)
			}
		case Slice:
			src = s.A
		}
		n := len(dst.A)
		if len(src) < n {
			n = len(src)
		}
		// memmove semantics
		tmp := make([]Value, n)
		for i := 0; i < n; i++ {
			tmp[i] = copyVal(src[i])
		}
		for i := 0; i < n; i++ {
			ex.store(&dst.A[i], tmp[i])
		}
		return c.Const(sym.BV(64), uint64(n))
	case "len":
		switch x := args[0].(type) {
		case Str:
			if x.Opaque {
				unsupported("len of a formatted (fmt) string")
			}
			return c.Const(sym.BV(64), uint64(x.Len()))
		case Slice:
			return c.Const(sym.BV(64), uint64(len(x.A)))
		case Array:
			return c.Const(sym.BV(64), uint64(len(x)))
		case *Value:
			return c.Const(sym.BV(64), uint64(len((*x).(Array))))
		case *Map:
			if x == nil {
				return c.Const(sym.BV(64), 0)
			}
			return c.Const(sym.BV(64), uint64(len(x.entries)))
		case *Chan:
			if x == nil {
				return c.Const(sym.BV(64), 0)
			}
			return c.Const(sym.BV(64), uint64(len(x.buf)))
		}
		ex.badCell(fr, args[0], "len")
	case "cap":
		switch x := args[0].(type) {
		case Slice:
			return c.Const(sym.BV(64), uint64(cap(x.A)))
		case Array:
			return c.Const(sym.BV(64), uint64(len(x)))
		case *Value:
			return c.Const(sym.BV(64), uint64(len((*x).(Array))))
		case *Chan:
			if x == nil {
				return c.Const(sym.BV(64), 0)
			}
			return c.Const(sym.BV(64), uint64(x.capacity))
		}
		ex.badCell(fr, args[0], "cap")
	case "delete":
		m := args[0].(*Map)
		ex.mapDelete(fr, m, args[1])
		return nil
	case "clear":
		switch x := args[0].(type) {
		case *Map:
			if x != nil {
				ex.mapSnapshot(x)
				x.entries = nil
			}
		case Slice:
			et := fn.Type().(*types.Signature).Params().At(0).Type().Underlying().(*types.Slice).Elem()
			for i := range x.A {
				ex.store(&x.A[i], ex.zero(et))
			}
		}
		return nil
	case "panic":
		panic(targetPanic{v: args[0], site: fr.fn.String()})
	case "recover":
		return ex.doRecover(fr)
	case "print", "println":
		return nil
	case "min", "max":
		isMin := fn.Name() == "min"
		res := args[0]
		for _, a := range args[1:] {
			switch x := res.(type) {
			case *sym.Term:
				y := a.(*sym.Term)
				var lt *sym.Term
				if x.S.K == sym.KFP {
					lt = c.FCmp(sym.OFLt, x, y)
				} else {
					_, signed, _ := intInfo(fn.Type().(*types.Signature).Params().At(0).Type())
					if signed {
						lt = c.Cmp(sym.OSLt, x, y)
					} else {
						lt = c.Cmp(sym.OULt, x, y)
					}
				}
				if isMin {
					res = c.Ite(lt, x, y)
				} else {
					res = c.Ite(lt, y, x)
				}
			default:
				unsupported("min/max on %T", res)
			}
		}
		return res
	case "ssa:wrapnilchk":
		if p, ok := args[0].(*Value); ok && p == nil {
			ex.rtPanic(fr, "value method called using nil pointer")
		}
		return args[0]
	case "close":
		ch, _ := args[0].(*Chan)
		if ch == nil {
			ex.rtPanic(fr, "close of nil channel")
		}
		if ch.closed {
			ex.rtPanic(fr, "close of closed channel")
		}
		ch.closed = true
		return nil
	}
	unsupported("builtin %s", fn.Name())
	return nil
}

func (ex *Exec) doRecover(fr *frame) Value {
	// fr is the deferred function's frame; its caller is the panicking frame
	if fr != nil && fr.caller != nil && fr.caller.panicking && !fr.panicking {
		p := fr.caller.panicVal.(targetPanic)
		fr.caller.panicking = false
		fr.caller.panicVal = nil
		ex.lastRecovered = &p
		if iv, ok := p.v.(Iface); ok {
			return iv
		}
		return Iface{}
	}
	return Iface{}
}

// appendVals implements append's growth policy (runtime.growslice incl.
// size-class rounding) so that cap() and aliasing after append match the
// compiled program.
func (ex *Exec) appendVals(dst Slice, src []Value, elemT types.Type) Slice {
	oldLen, oldCap := len(dst.A), cap(dst.A)
	newLen := oldLen + len(src)
	cp := make([]Value, len(src))
	for i, v := range src {
		cp[i] = copyVal(v)
	}
	if newLen <= oldCap && dst.A != nil || (dst.A == nil && newLen == 0) {
		a := dst.A[:newLen]
		for i, v := range cp {
			ex.store(&a[oldLen+i], v)
		}
		return Slice{A: a}
	}
	esize := int(ex.sizes.Sizeof(elemT))
	newCap := growCap(oldLen, oldCap, newLen, esize)
	a := make([]Value, newLen, newCap)
	copy(a, dst.A)
	copy(a[oldLen:], cp)
	// zero the spare capacity lazily: fill with zero values of the element type
	if newCap > newLen {
		full := a[:newCap]
		z := ex.zero(elemT)
		switch z.(type) {
		case Struct, Array:
			for i := newLen; i < newCap; i++ {
				full[i] = ex.zero(elemT)
			}
		default:
			for i := newLen; i < newCap; i++ {
				full[i] = z
			}
		}
	}
	return Slice{A: a}
}

var sizeClasses = []int{0, 8, 16, 24, 32, 48, 64, 80, 96, 112, 128, 144, 160, 176, 192, 208, 224, 240, 256, 288, 320, 352, 384, 416, 448, 480, 512, 576, 640, 704, 768, 896, 1024, 1152, 1280, 1408, 1536, 1792, 2048, 2304, 2688, 3072, 3200, 3456, 4096, 4864, 5376, 6144, 6528, 6784, 6912, 8192, 9472, 9728, 10240, 10880, 12288, 13568, 14336, 16384, 18432, 19072, 20480, 21760, 24576, 27264, 28672, 32768}

func roundupsize(size int) int {
	if size <= 32768 {
		for _, c := range sizeClasses {
			if c >= size {
				return c
			}
		}
	}
	// large: round up to page size
	const page = 8192
	return (size + page - 1) / page * page
}

func growCap(oldLen, oldCap, newLen, esize int) int {
	newcap := oldCap
	doublecap := newcap + newcap
	if newLen > doublecap {
		newcap = newLen
	} else {
		const threshold = 256
		if oldCap < threshold {
			newcap = doublecap
		} else {
			for newcap < newLen {
				newcap += (newcap + 3*threshold) >> 2
			}
		}
	}
	if esize == 0 {
		return newcap
	}
	mem := roundupsize(newcap * esize)
	return mem / esize
}

var _ = fmt.Sprintf
