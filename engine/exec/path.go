package exec

import (
	"fmt"
	"os"
	"runtime/debug"
	"sort"

	"golang.org/x/tools/go/ssa"

	"verif/engine/solver"
	"verif/engine/sym"
)

type ChoiceRec struct {
	Tag string
	Val int
	N   int
}

type KV struct{ K, V string }

// InputVal is the value of one symbolic input in a model.
type InputVal struct {
	Name string
	Bits int
	Kind string // "bv", "bool", "fp"
	Val  uint64
}

// Failure is a failed vx.Assert (or an uncaught panic) with a witness.
type Failure struct {
	ID      string
	Detail  string
	Inputs  []InputVal
	Choices []ChoiceRec
	Keys    []KV
	Script  string // standalone SMT script of the violated query (for the second solver)
}

type Observation struct {
	Tag   string
	Terms []*sym.Term // scalar or bytes
	Kind  string      // "int","bool","bytes","string"
}

// PathResult describes one explored path.
type PathResult struct {
	End         string // "ok", "panic", or a pathEnd kind
	Detail      string
	Choices     []ChoiceRec
	Keys        []KV
	Covers      []string
	Failures    []Failure
	Steps       int
	Inputs      []InputVal // a witness of the whole path (model of the final PC)
	Observed    []ObservedVal
	AssertsSeen int
	AssertQ     int // assertion queries sent to the solver
	observes    []Observation
	LastPanic   string
}

type ObservedVal struct {
	Tag string
	Val string
}

// RunPath executes the harness once along the current trail.
func (ex *Exec) RunPath(fn *ssa.Function) *PathResult {
	ex.pos = 0
	ex.pc = ex.pc[:0]
	ex.setModel(nil)
	ex.inputs = ex.inputs[:0]
	for k := range ex.inputSeq {
		delete(ex.inputSeq, k)
	}
	ex.knownVals = map[int]uint64{}
	ex.varRange = map[int][2]uint64{}
	ex.decMemo = map[int][]*sym.Term{}
	ex.facts = map[int]bool{}
	ex.pfVars, ex.pfText = nil, nil
	ex.steps = 0
	ex.forks = 0
	ex.callStack = ex.callStack[:0]
	ex.epoch++
	for k := range ex.pools {
		delete(ex.pools, k)
	}
	res := &PathResult{End: "ok"}
	ex.res = res
	func() {
		defer func() {
			e := recover()
			if e == nil {
				return
			}
			switch e := e.(type) {
			case pathEnd:
				res.End = e.kind.String()
				res.Detail = e.detail
				if e.kind == endBudget && ex.HangAsFailure {
					// a path that does not finish within the step budget is a candidate
					// non-termination: confirmed (or not) by the native replay under a timeout
					ex.recordFailure("terminates", "step budget exceeded: "+e.detail, nil)
					res.End = "stop"
				}
				if e.kind == endUnsupported || e.kind == endInternal || e.kind == endBudget {
					res.Detail += " [in " + ex.StackString(4) + "]"
				}
			case targetPanic:
				res.End = "panic"
				res.Detail = fmt.Sprintf("%s at %s", describe(e.v), e.site)
				// an uncaught panic of the harness is a failure of the implicit assertion
				ex.recordFailure("uncaught-panic", res.Detail, nil)
			default:
				res.End = "internal"
				res.Detail = fmt.Sprintf("engine panic: %v", e)
				if os.Getenv("VERIF_DEBUG") != "" {
					fmt.Fprintf(os.Stderr, "engine panic: %v\n%s\n", e, debug.Stack())
				}
			}
		}()
		ex.call(nil, fn, nil, 0)
	}()
	res.Steps = ex.steps
	ex.TotalSteps += int64(ex.steps)
	ex.TotalPaths++
	if res.End == "ok" || res.End == "panic" {
		func() {
			defer func() {
				if e := recover(); e != nil {
					if pe, ok := e.(pathEnd); ok {
						res.End = pe.kind.String()
						res.Detail = pe.detail
						return
					}
					panic(e)
				}
			}()
			m := ex.ensureModel()
			res.Inputs = ex.inputVals(m)
			ev := sym.NewEvaluator(ex.c, m)
			for _, o := range res.observes {
				res.Observed = append(res.Observed, ObservedVal{o.Tag, renderObs(ev, o)})
			}
		}()
	}
	// undo heap writes so that init-time state is restored
	for i := len(ex.undo) - 1; i >= 0; i-- {
		u := ex.undo[i]
		if u.m != nil {
			u.m.entries = u.ent
		} else {
			*u.p = u.old
		}
	}
	ex.undo = ex.undo[:0]
	return res
}

func renderObs(ev *sym.Evaluator, o Observation) string {
	switch o.Kind {
	case "bytes", "string":
		b := make([]byte, len(o.Terms))
		for i, t := range o.Terms {
			v, ok := ev.Eval(t)
			if !ok {
				return "?"
			}
			b[i] = byte(v)
		}
		return fmt.Sprintf("%x", b)
	default:
		v, ok := ev.Eval(o.Terms[0])
		if !ok {
			return "?"
		}
		return fmt.Sprintf("%d", v)
	}
}

func (ex *Exec) inputVals(m *sym.Model) []InputVal {
	out := make([]InputVal, 0, len(ex.inputs))
	for _, in := range ex.inputs {
		iv := InputVal{Name: in.Name, Bits: int(in.S.W)}
		switch in.S.K {
		case sym.KBool:
			iv.Kind = "bool"
		case sym.KBV:
			iv.Kind = "bv"
		default:
			iv.Kind = "fp"
		}
		iv.Val = m.Vals[in.Name]
		out = append(out, iv)
	}
	return out
}

// recordFailure stores a violated assertion together with a witness model.
func (ex *Exec) recordFailure(id, detail string, m *sym.Model) {
	if m == nil {
		func() {
			defer func() {
				if e := recover(); e != nil {
					if _, ok := e.(pathEnd); !ok {
						panic(e)
					}
				}
			}()
			m = ex.ensureModel()
		}()
	}
	if ex.res.LastPanic != "" {
		detail += " (last caught panic: " + ex.res.LastPanic + ")"
	}
	f := Failure{ID: id, Detail: detail}
	if m != nil {
		f.Inputs = ex.inputVals(m)
	}
	f.Choices = append(f.Choices, ex.res.Choices...)
	f.Keys = append(f.Keys, ex.res.Keys...)
	ex.res.Failures = append(ex.res.Failures, f)
}

// checkAssert decides PC ⇒ c. A violation is recorded with its model; the
// path continues under the assumption c.
func (ex *Exec) checkAssert(id string, c *sym.Term) {
	if ex.AssertFilter != nil && !ex.AssertFilter(id) {
		return
	}
	ex.res.AssertsSeen++
	if c.IsTrue() {
		return
	}
	if c.IsFalse() {
		ex.recordFailure(id, "assertion is false on this path", nil)
		return // independent assertions that follow are still evaluated
	}
	neg := ex.c.Not(c)
	// On replay the verdict was already computed on the first visit of this
	// prefix only if the assertion lies before the last decision; assertions
	// are re-decided only when they lie on the new suffix.
	if ex.pos < len(ex.trail) {
		// before the flipped decision: already checked on an earlier path
		ex.assumeReplay(c)
		return
	}
	ex.res.AssertQ++
	var vm *sym.Model
	if v, ok := ex.evalBool(neg); ok && v {
		vm = ex.model
	} else {
		r, m := ex.checkWith(neg)
		if r == solver.Sat {
			vm = m
		}
	}
	if vm != nil {
		ex.recordFailure(id, "assertion violated", vm)
		if ex.KeepScripts {
			s, _ := ex.standalone(neg)
			ex.res.Failures[len(ex.res.Failures)-1].Script = s
		}
	} else if ex.CrossCheck != nil {
		s, _ := ex.standalone(neg)
		ex.CrossCheck(id, s, solver.Unsat)
	}
	ex.assume(c)
}

// assumeReplay consumes the trail entry that the original assume created.
func (ex *Exec) assumeReplay(c *sym.Term) {
	ex.assume(c)
}

// ---------- work-unit enumeration ----------

// SortedCovers returns cover ids sorted.
func SortedCovers(m map[string]bool) []string {
	var out []string
	for k := range m {
		out = append(out, k)
	}
	sort.Strings(out)
	return out
}
