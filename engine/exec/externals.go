package exec

import (
	"fmt"
	"go/token"
	"go/types"
	"math"
	"strconv"
	"strings"

	"golang.org/x/tools/go/ssa"

	"verif/engine/sym"
)

func installExternals(ex *Exec) {
	installVx(ex)
	E := ex.Externals
	c := ex.c
	i64 := func(v int64) *sym.Term { return c.Const(sym.BV(64), uint64(v)) }

	// ----- fmt: opaque results unless all operands are plain concrete values -----
	fmtStr := func(ex *Exec, format string, hasFormat bool, args []Value, ln bool) Str {
		native := make([]any, 0, len(args))
		for _, a := range args {
			nv, ok := ex.nativeArg(a)
			if !ok {
				return Str{S: "<fmt>", Opaque: true}
			}
			native = append(native, nv)
		}
		if hasFormat {
			return Str{S: fmt.Sprintf(format, native...)}
		}
		if ln {
			return Str{S: fmt.Sprintln(native...)}
		}
		return Str{S: fmt.Sprint(native...)}
	}
	variadic := func(v Value) []Value {
		s, _ := v.(Slice)
		return s.A
	}
	E["fmt.Sprintf"] = func(ex *Exec, fr *frame, a []Value) Value {
		f, ok := a[0].(Str)
		if !ok || !f.Concrete() || f.Opaque {
			return Str{S: "<fmt>", Opaque: true}
		}
		return fmtStr(ex, f.Go(), true, variadic(a[1]), false)
	}
	E["fmt.Sprint"] = func(ex *Exec, fr *frame, a []Value) Value { return fmtStr(ex, "", false, variadic(a[0]), false) }
	E["fmt.Sprintln"] = func(ex *Exec, fr *frame, a []Value) Value { return fmtStr(ex, "", false, variadic(a[0]), true) }
	E["fmt.Errorf"] = func(ex *Exec, fr *frame, a []Value) Value {
		var s Str
		f, ok := a[0].(Str)
		if !ok || !f.Concrete() || f.Opaque || strings.Contains(f.Go(), "%w") {
			s = Str{S: "<fmt>", Opaque: true}
		} else {
			s = fmtStr(ex, f.Go(), true, variadic(a[1]), false)
		}
		return ex.newError(s)
	}
	E["fmt.Fprintf"] = func(ex *Exec, fr *frame, a []Value) Value { unsupported("fmt.Fprintf"); return nil }
	E["fmt.Printf"] = func(ex *Exec, fr *frame, a []Value) Value { return Tuple{i64(0), Iface{}} }
	E["fmt.Println"] = E["fmt.Printf"]
	E["fmt.Print"] = E["fmt.Printf"]
	E["fmt.Appendf"] = func(ex *Exec, fr *frame, a []Value) Value {
		f, ok := a[1].(Str)
		if !ok || !f.Concrete() {
			unsupported("fmt.Appendf with symbolic format")
		}
		s := fmtStr(ex, f.Go(), true, variadic(a[2]), false)
		if s.Opaque {
			unsupported("fmt.Appendf with symbolic or non-basic operands")
		}
		var src []Value
		for _, t := range ex.strSym(s) {
			src = append(src, t)
		}
		if len(src) == 0 {
			return a[0]
		}
		return ex.appendVals(a[0].(Slice), src, types.Typ[types.Uint8])
	}

	// ----- errors -----
	E["errors.Is"] = func(ex *Exec, fr *frame, a []Value) Value {
		e, t := a[0].(Iface), a[1].(Iface)
		if e.T == nil || t.T == nil {
			return c.Bool(e.T == nil && t.T == nil)
		}
		is := ex.Prog.ImportedPackage("errors").Func("is")
		return ex.call(fr, is, []Value{e, t, c.Bool(types.Comparable(t.T))}, token.NoPos)
	}

	// ----- sync -----
	nop := func(ex *Exec, fr *frame, a []Value) Value { return nil }
	for _, n := range []string{"(*sync.Mutex).Lock", "(*sync.Mutex).Unlock", "(*sync.RWMutex).Lock", "(*sync.RWMutex).Unlock",
		"(*sync.RWMutex).RLock", "(*sync.RWMutex).RUnlock", "(*sync.WaitGroup).Add", "(*sync.WaitGroup).Done", "(*sync.WaitGroup).Wait",
		"runtime.KeepAlive", "runtime.GC", "runtime.Gosched", "internal/race.Acquire", "internal/race.Release", "internal/race.ReleaseMerge",
		"internal/race.Disable", "internal/race.Enable", "internal/race.Read", "internal/race.Write", "internal/race.ReadRange", "internal/race.WriteRange",
		"runtime.SetFinalizer"} {
		E[n] = nop
	}
	E["(*sync.Mutex).TryLock"] = func(ex *Exec, fr *frame, a []Value) Value { return c.T }
	E["(*sync.Once).Do"] = func(ex *Exec, fr *frame, a []Value) Value {
		p := a[0].(*Value)
		if ex.onceDone[p] {
			return nil
		}
		ex.onceDone[p] = true
		ex.call(fr, a[1], nil, token.NoPos)
		return nil
	}
	E["(*sync.Pool).Get"] = func(ex *Exec, fr *frame, a []Value) Value {
		p := a[0].(*Value)
		items := ex.pools[p]
		pick := -1
		if len(items) > 0 {
			if ex.PoolFork {
				conds := make([]*sym.Term, len(items)+1)
				for i := range conds {
					conds[i] = c.T
				}
				pick = ex.branch(conds, "") // last option = New()
				if pick == len(items) {
					pick = -1
				}
			} else {
				pick = len(items) - 1
			}
		}
		if pick >= 0 {
			v := items[pick]
			ni := append(append([]Value{}, items[:pick]...), items[pick+1:]...)
			ex.pools[p] = ni
			return v
		}
		// New
		st := (*p).(Struct)
		pt := ex.Prog.ImportedPackage("sync").Type("Pool").Type().Underlying().(*types.Struct)
		for i := 0; i < pt.NumFields(); i++ {
			if pt.Field(i).Name() == "New" {
				nf := st[i]
				if isNilFunc(nf) {
					return Iface{}
				}
				return ex.call(fr, nf, nil, token.NoPos)
			}
		}
		internalErr("sync.Pool has no New field")
		return nil
	}
	E["(*sync.Pool).Put"] = func(ex *Exec, fr *frame, a []Value) Value {
		p := a[0].(*Value)
		if iv, ok := a[1].(Iface); ok && iv.T == nil {
			return nil
		}
		ex.pools[p] = append(append([]Value{}, ex.pools[p]...), a[1])
		return nil
	}

	// ----- sync/atomic (sequential core: plain loads and stores) -----
	for _, ty := range []string{"Int32", "Int64", "Uint32", "Uint64", "Uintptr"} {
		ty := ty
		E["sync/atomic.Load"+ty] = func(ex *Exec, fr *frame, a []Value) Value { return *ex.ptr(fr, a[0]) }
		E["sync/atomic.Store"+ty] = func(ex *Exec, fr *frame, a []Value) Value { ex.store(ex.ptr(fr, a[0]), a[1]); return nil }
		E["sync/atomic.Add"+ty] = func(ex *Exec, fr *frame, a []Value) Value {
			p := ex.ptr(fr, a[0])
			n := c.BinBV(sym.OAdd, (*p).(*sym.Term), a[1].(*sym.Term))
			ex.store(p, n)
			return n
		}
		E["sync/atomic.Swap"+ty] = func(ex *Exec, fr *frame, a []Value) Value {
			p := ex.ptr(fr, a[0])
			old := *p
			ex.store(p, a[1])
			return old
		}
		E["sync/atomic.CompareAndSwap"+ty] = func(ex *Exec, fr *frame, a []Value) Value {
			p := ex.ptr(fr, a[0])
			if ex.decide(c.Eq((*p).(*sym.Term), a[1].(*sym.Term))) {
				ex.store(p, a[2])
				return c.T
			}
			return c.F
		}
	}
	E["sync/atomic.LoadPointer"] = func(ex *Exec, fr *frame, a []Value) Value { return *ex.ptr(fr, a[0]) }
	E["sync/atomic.StorePointer"] = func(ex *Exec, fr *frame, a []Value) Value { ex.store(ex.ptr(fr, a[0]), a[1]); return nil }

	// ----- math -----
	E["math.Float64bits"] = func(ex *Exec, fr *frame, a []Value) Value { return ex.floatBits(a[0].(*sym.Term)) }
	E["math.Float32bits"] = E["math.Float64bits"]
	E["math.Float64frombits"] = func(ex *Exec, fr *frame, a []Value) Value { return c.BitsToFP(a[0].(*sym.Term)) }
	E["math.Float32frombits"] = E["math.Float64frombits"]
	E["math.IsNaN"] = func(ex *Exec, fr *frame, a []Value) Value { return c.FIsNaN(a[0].(*sym.Term)) }
	E["math.Abs"] = func(ex *Exec, fr *frame, a []Value) Value { return c.FAbs(a[0].(*sym.Term)) }
	E["math.IsInf"] = func(ex *Exec, fr *frame, a []Value) Value {
		f := a[0].(*sym.Term)
		sign := ex.concreteInt(a[1].(*sym.Term), "IsInf sign")
		pinf := c.FCmp(sym.OFEq, f, c.FConst(f.S, math.Inf(1)))
		ninf := c.FCmp(sym.OFEq, f, c.FConst(f.S, math.Inf(-1)))
		switch {
		case sign > 0:
			return pinf
		case sign < 0:
			return ninf
		}
		return c.Or(pinf, ninf)
	}
	nativeF1 := func(name string, f func(float64) float64) {
		E[name] = func(ex *Exec, fr *frame, a []Value) Value {
			x := a[0].(*sym.Term)
			if !x.IsConst() {
				unsupported("%s on a symbolic float", name)
			}
			return c.FConst(x.S, f(sym.FloatOf(x)))
		}
	}
	nativeF1("math.Floor", math.Floor)
	nativeF1("math.Ceil", math.Ceil)
	nativeF1("math.Trunc", math.Trunc)
	nativeF1("math.Sqrt", math.Sqrt)
	nativeF1("math.Log10", math.Log10)
	nativeF1("math.Log", math.Log)
	nativeF1("math.Exp", math.Exp)
	nativeF1("math.Round", math.Round)
	E["math.Pow"] = func(ex *Exec, fr *frame, a []Value) Value {
		x, y := a[0].(*sym.Term), a[1].(*sym.Term)
		if !x.IsConst() || !y.IsConst() {
			unsupported("math.Pow on symbolic floats")
		}
		return c.FConst(x.S, math.Pow(sym.FloatOf(x), sym.FloatOf(y)))
	}
	E["math.Mod"] = func(ex *Exec, fr *frame, a []Value) Value {
		x, y := a[0].(*sym.Term), a[1].(*sym.Term)
		if !x.IsConst() || !y.IsConst() {
			unsupported("math.Mod on symbolic floats")
		}
		return c.FConst(x.S, math.Mod(sym.FloatOf(x), sym.FloatOf(y)))
	}

	// ----- internal/bytealg and friends (assembly in the real build) -----
	E["internal/bytealg.IndexByte"] = func(ex *Exec, fr *frame, a []Value) Value {
		return ex.indexByte(ex.seqTerms(a[0]), a[1].(*sym.Term))
	}
	E["internal/bytealg.IndexByteString"] = E["internal/bytealg.IndexByte"]
	E["internal/bytealg.Count"] = func(ex *Exec, fr *frame, a []Value) Value {
		n := c.Const(sym.BV(64), 0)
		for _, b := range ex.seqTerms(a[0]) {
			n = c.BinBV(sym.OAdd, n, c.Ite(c.Eq(b, a[1].(*sym.Term)), c.Const(sym.BV(64), 1), c.Const(sym.BV(64), 0)))
		}
		return n
	}
	E["internal/bytealg.CountString"] = E["internal/bytealg.Count"]
	E["internal/bytealg.Equal"] = func(ex *Exec, fr *frame, a []Value) Value {
		x, y := ex.seqTerms(a[0]), ex.seqTerms(a[1])
		return ex.strEq(Str{Sym: nonNil(x)}, Str{Sym: nonNil(y)})
	}
	E["bytes.Equal"] = E["internal/bytealg.Equal"]
	E["internal/bytealg.Compare"] = func(ex *Exec, fr *frame, a []Value) Value {
		x, y := Str{Sym: nonNil(ex.seqTerms(a[0]))}, Str{Sym: nonNil(ex.seqTerms(a[1]))}
		lt := ex.strLess(x, y, false)
		eq := ex.strEq(x, y)
		return c.Ite(eq, i64(0), c.Ite(lt, i64(-1), i64(1)))
	}
	E["bytes.Compare"] = E["internal/bytealg.Compare"]
	E["strings.Compare"] = E["internal/bytealg.Compare"]
	// sort.Slice / SliceStable (reflection based swapper in the real code):
	// insertion sort with the caller's less function; any order consistent
	// with less is a legal outcome of sort.Slice
	E["sort.Slice"] = func(ex *Exec, fr *frame, a []Value) Value {
		iv, _ := a[0].(Iface)
		sl, ok := iv.V.(Slice)
		if !ok {
			unsupported("sort.Slice of a non-slice")
		}
		c := ex.c
		for i := 1; i < len(sl.A); i++ {
			for j := i; j > 0; j-- {
				r := ex.call(fr, a[1], []Value{c.Const(sym.BV(64), uint64(j)), c.Const(sym.BV(64), uint64(j-1))}, token.NoPos)
				if !ex.decide(r.(*sym.Term)) {
					break
				}
				tmp := sl.A[j]
				ex.store(&sl.A[j], sl.A[j-1])
				ex.store(&sl.A[j-1], tmp)
			}
		}
		return nil
	}
	E["sort.SliceStable"] = E["sort.Slice"]
	// regular expressions are not executed (outside every claim)
	E["regexp.Compile"] = func(ex *Exec, fr *frame, a []Value) Value {
		unsupported("regexp.Compile (regular expressions are not encoded)")
		return nil
	}
	E["regexp.MustCompile"] = E["regexp.Compile"]
	// strings are immutable values in the executor: a clone is the string
	E["internal/stringslite.Clone"] = func(ex *Exec, fr *frame, a []Value) Value { return a[0] }
	E["strings.Clone"] = E["internal/stringslite.Clone"]
	E["internal/bytealg.CompareString"] = E["internal/bytealg.Compare"]
	E["runtime.cmpstring"] = E["internal/bytealg.Compare"]
	E["internal/bytealg.MakeNoZero"] = func(ex *Exec, fr *frame, a []Value) Value {
		n := ex.concreteInt(a[0].(*sym.Term), "MakeNoZero")
		out := make([]Value, n)
		z := c.Const(sym.BV(8), 0)
		for i := range out {
			out[i] = z
		}
		return Slice{A: out}
	}
	naiveIndex := func(ex *Exec, fr *frame, a []Value) Value {
		// first position where sep occurs in s, or -1 (both may be symbolic)
		s, sep := ex.seqTerms(a[0]), ex.seqTerms(a[1])
		res := i64(-1)
		for i := len(s) - len(sep); i >= 0; i-- {
			m := c.T
			for j := range sep {
				m = c.And(m, c.Eq(s[i+j], sep[j]))
			}
			res = c.Ite(m, i64(int64(i)), res)
		}
		return res
	}
	E["internal/bytealg.Index"] = naiveIndex
	E["internal/bytealg.IndexString"] = naiveIndex
	E["strings.Index"] = naiveIndex
	E["bytes.Index"] = naiveIndex
	E["internal/bytealg.Cutover"] = func(ex *Exec, fr *frame, a []Value) Value { return i64(64) }

	// ----- strconv: native on concrete operands -----
	E["strconv.FormatFloat"] = func(ex *Exec, fr *frame, a []Value) Value {
		f := a[0].(*sym.Term)
		if !f.IsConst() {
			unsupported("strconv.FormatFloat of a symbolic float")
		}
		return Str{S: strconv.FormatFloat(sym.FloatOf(f), byte(ex.concreteInt(a[1].(*sym.Term), "fmt")), ex.concreteInt(a[2].(*sym.Term), "prec"), ex.concreteInt(a[3].(*sym.Term), "bits"))}
	}
	E["strconv.AppendFloat"] = func(ex *Exec, fr *frame, a []Value) Value {
		f := a[1].(*sym.Term)
		if !f.IsConst() {
			unsupported("strconv.AppendFloat of a symbolic float")
		}
		s := strconv.FormatFloat(sym.FloatOf(f), byte(ex.concreteInt(a[2].(*sym.Term), "fmt")), ex.concreteInt(a[3].(*sym.Term), "prec"), ex.concreteInt(a[4].(*sym.Term), "bits"))
		var src []Value
		for i := 0; i < len(s); i++ {
			src = append(src, c.Const(sym.BV(8), uint64(s[i])))
		}
		return ex.appendVals(a[0].(Slice), src, types.Typ[types.Uint8])
	}
	E["strconv.ParseFloat"] = func(ex *Exec, fr *frame, a []Value) Value {
		s := a[0].(Str)
		if !s.Concrete() || s.Opaque {
			if ex.ParseFloatStub != nil {
				return ex.ParseFloatStub(ex, fr, s, ex.concreteInt(a[1].(*sym.Term), "bits"))
			}
			unsupported("strconv.ParseFloat of a symbolic string")
		}
		f, err := strconv.ParseFloat(s.Go(), ex.concreteInt(a[1].(*sym.Term), "bits"))
		var ev Value = Iface{}
		if err != nil {
			ev = ex.newError(Str{S: err.Error()})
		}
		return Tuple{c.FConst(sym.FP(64), f), ev}
	}
	E["strconv.Quote"] = func(ex *Exec, fr *frame, a []Value) Value {
		s := a[0].(Str)
		if !s.Concrete() || s.Opaque {
			unsupported("strconv.Quote of a symbolic string")
		}
		return Str{S: strconv.Quote(s.Go())}
	}

	// bytes.Runes only feeds '%c' in error messages (5 call sites, all
	// bytes.Runes(buf[off:])[0]); decoding the whole remaining input would
	// fork on every following byte. Contract stub: first rune arbitrary.
	E["bytes.Runes"] = func(ex *Exec, fr *frame, a []Value) Value {
		s := a[0].(Slice)
		if len(s.A) == 0 {
			return Slice{A: []Value{}}
		}
		allConst := true
		for _, v := range s.A {
			if !v.(*sym.Term).IsConst() {
				allConst = false
			}
		}
		if allConst {
			b := make([]byte, len(s.A))
			for i, v := range s.A {
				b[i] = byte(v.(*sym.Term).Val)
			}
			var out []Value
			for _, r := range []rune(string(b)) {
				out = append(out, c.Const(sym.BV(32), uint64(uint32(r))))
			}
			return Slice{A: out}
		}
		return Slice{A: []Value{ex.NewInput("opaque_rune", sym.BV(32))}}
	}

	// ----- runtime / debug -----
	E["runtime/debug.Stack"] = func(ex *Exec, fr *frame, a []Value) Value { return Slice{A: []Value{}} }
	E["runtime/debug.PrintStack"] = nop
	E["os.Exit"] = func(ex *Exec, fr *frame, a []Value) Value { unsupported("os.Exit"); return nil }
	E["time.Now"] = func(ex *Exec, fr *frame, a []Value) Value { unsupported("time.Now"); return nil }
	E["unicode/utf8.ValidString"] = nil
	delete(E, "unicode/utf8.ValidString")
}

func nonNil(x []*sym.Term) []*sym.Term {
	if x == nil {
		return []*sym.Term{}
	}
	return x
}

// seqTerms returns the byte terms of a string or []byte value.
func (ex *Exec) seqTerms(v Value) []*sym.Term {
	switch v := v.(type) {
	case Str:
		ex.checkOpaque(v)
		return ex.strSym(v)
	case Slice:
		out := make([]*sym.Term, len(v.A))
		for i, e := range v.A {
			out[i] = e.(*sym.Term)
		}
		return out
	}
	internalErr("seqTerms on %T", v)
	return nil
}

func (ex *Exec) indexByte(s []*sym.Term, b *sym.Term) *sym.Term {
	c := ex.c
	res := c.Const(sym.BV(64), ^uint64(0))
	for i := len(s) - 1; i >= 0; i-- {
		res = c.Ite(c.Eq(s[i], b), c.Const(sym.BV(64), uint64(i)), res)
	}
	return res
}

// floatBits returns the IEEE bits of f. For a symbolic float a fresh
// bit-vector is introduced and tied to f (NaN payloads are not preserved).
func (ex *Exec) floatBits(f *sym.Term) *sym.Term {
	if f.IsConst() {
		return ex.c.Const(sym.BV(int(f.S.W)), f.Val)
	}
	if f.Op == sym.OBitsToFP {
		return f.Args[0]
	}
	v := ex.NewInput("fbits", sym.BV(int(f.S.W)))
	ex.assume(ex.c.Eq(ex.c.BitsToFP(v), f))
	return v
}

// nativeArg converts a concrete basic value to a native Go value for fmt.
func (ex *Exec) nativeArg(v Value) (any, bool) {
	iv, ok := v.(Iface)
	if !ok {
		return nil, false
	}
	if iv.T == nil {
		return nil, true
	}
	if _, named := iv.T.(*types.Named); named {
		return nil, false
	}
	b, ok := iv.T.(*types.Basic)
	if !ok {
		return nil, false
	}
	switch x := iv.V.(type) {
	case *sym.Term:
		if !x.IsConst() {
			return nil, false
		}
		switch b.Kind() {
		case types.Bool:
			return x.Val == 1, true
		case types.Int:
			return int(x.Val), true
		case types.Int8:
			return int8(x.Val), true
		case types.Int16:
			return int16(x.Val), true
		case types.Int32:
			return int32(x.Val), true
		case types.Int64:
			return int64(x.Val), true
		case types.Uint:
			return uint(x.Val), true
		case types.Uint8:
			return uint8(x.Val), true
		case types.Uint16:
			return uint16(x.Val), true
		case types.Uint32:
			return uint32(x.Val), true
		case types.Uint64:
			return x.Val, true
		case types.Uintptr:
			return uintptr(x.Val), true
		case types.Float32:
			return float32(sym.FloatOf(x)), true
		case types.Float64:
			return sym.FloatOf(x), true
		}
	case Str:
		if x.Concrete() && !x.Opaque {
			return x.Go(), true
		}
	}
	return nil, false
}

// newError builds an error value of the real type *errors.errorString.
func (ex *Exec) newError(msg Str) Value {
	pkg := ex.Prog.ImportedPackage("errors")
	if pkg == nil {
		unsupported("errors package not loaded")
	}
	t := pkg.Type("errorString").Type()
	var cell Value = Struct{msg}
	return Iface{T: types.NewPointer(t), V: &cell}
}

// unsafeCast models the few unsafe.Pointer idioms the code base uses.
func (ex *Exec) unsafeCast(fr *frame, up UnsafePtr, dst types.Type) Value {
	if up.P == nil {
		return (*Value)(nil)
	}
	p, _ := up.P.(*Value)
	if p == nil {
		return (*Value)(nil)
	}
	if sameType(up.Elem, dst) {
		return p
	}
	// (*[2]uintptr)(unsafe.Pointer(&iface)): type word / data word
	if arr, ok := dst.Underlying().(*types.Array); ok && arr.Len() == 2 && isInterface(up.Elem) {
		if b, ok := arr.Elem().Underlying().(*types.Basic); ok && b.Kind() == types.Uintptr {
			iv, ok := (*p).(Iface)
			if !ok {
				ex.badCell(fr, *p, "iface pun")
			}
			tw, dw := uint64(0), uint64(0)
			if iv.T != nil {
				tw = 0x1000
				dw = 0x2000
				switch x := iv.V.(type) {
				case *Value:
					if x == nil {
						dw = 0
					}
				case *Map:
					if x == nil {
						dw = 0
					}
				case *Chan:
					if x == nil {
						dw = 0
					}
				case UnsafePtr:
					if x.P == nil {
						dw = 0
					}
				case *ssa.Function, *Closure, *ssa.Builtin:
					if isNilFunc(x) {
						dw = 0
					}
				}
			}
			var cell Value = Array{ex.c.Const(sym.BV(64), tw), ex.c.Const(sym.BV(64), dw)}
			return &cell
		}
	}
	// same underlying layout (named slice <-> unnamed slice etc.): share the cell
	if types.Identical(up.Elem.Underlying(), dst.Underlying()) {
		return p
	}
	if s1, ok := up.Elem.Underlying().(*types.Slice); ok {
		if s2, ok := dst.Underlying().(*types.Slice); ok {
			if types.Identical(s1.Elem().Underlying(), s2.Elem().Underlying()) ||
				(isInterface(s1.Elem()) && isInterface(s2.Elem())) {
				return p
			}
		}
		// *[]byte -> *string (strings.Builder, unsafe string conversion): not a shared cell
	}
	// map[K]any <-> map[K]SomeInterface (gen.Object pun in alt.GenAlter): same cell
	if m1, ok := up.Elem.Underlying().(*types.Map); ok {
		if m2, ok := dst.Underlying().(*types.Map); ok {
			if types.Identical(m1.Key(), m2.Key()) && isInterface(m1.Elem()) && isInterface(m2.Elem()) {
				return p
			}
		}
	}
	// *float64 <-> *uint64 (math.Float64bits-like)
	unsupported("unsafe cast *%v -> *%v", up.Elem, dst)
	return nil
}
