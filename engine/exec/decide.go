package exec

import (
	"fmt"
	"os"
	"strings"
	"time"

	"verif/engine/solver"
	"verif/engine/sym"
)

// choice is one entry of the decision trail.
type choice struct {
	opts     []int        // feasible options, explored in order
	models   []*sym.Model // a model of PC ∧ option (may be nil)
	cur      int
	asserted bool // the solver holds a scope for this entry
	forced   bool // part of the work-unit prefix: never backtracked
	// enumeration entries (concretize): options are discovered lazily
	enum     bool
	enumVals []uint64
	enumDone bool
	tag      string // vx.Choose tag (for reporting), empty for engine decisions
	n        int
}

// SetPrefix installs a forced decision prefix (a work unit).
func (ex *Exec) SetPrefix(p []PrefixEntry) {
	ex.resetSolver()
	ex.trail = ex.trail[:0]
	for _, e := range p {
		c := &choice{opts: []int{e.Opt}, forced: true, tag: e.Tag, n: e.N}
		if e.Enum {
			c.enum = true
			c.enumVals = []uint64{e.Val}
			c.enumDone = true
			c.opts = []int{0}
		}
		ex.trail = append(ex.trail, c)
	}
	ex.prefixN = len(p)
}

// PrefixEntry is one forced decision of a work unit.
type PrefixEntry struct {
	Opt  int
	Tag  string
	N    int
	Enum bool
	Val  uint64
}

func (ex *Exec) resetSolver() {
	if ex.z3.Depth > 0 {
		ex.z3.Pop(ex.z3.Depth)
	}
}

// SetCutDepth enables enumeration mode: paths are cut when the trail
// would grow beyond depth d (used to generate work units).
func (ex *Exec) SetCutDepth(d int) { ex.cutDepth = d }

// Prefix returns the current trail as a forced prefix.
func (ex *Exec) Prefix() []PrefixEntry {
	var out []PrefixEntry
	for _, c := range ex.trail {
		e := PrefixEntry{Tag: c.tag, N: c.n}
		if c.enum {
			e.Enum = true
			e.Val = c.enumVals[c.cur]
		} else {
			e.Opt = c.opts[c.cur]
		}
		out = append(out, e)
	}
	return out
}

// NextPath backtracks to the deepest decision with an unexplored option.
// It returns false when the exploration below the forced prefix is complete.
func (ex *Exec) NextPath() bool {
	for len(ex.trail) > ex.prefixN {
		c := ex.trail[len(ex.trail)-1]
		if c.asserted {
			ex.z3.Pop(1)
			c.asserted = false
		}
		if c.enum {
			if !c.enumDone {
				// ask for one more value when re-executed
				c.cur++
				return true
			}
			if c.cur+1 < len(c.enumVals) {
				c.cur++
				return true
			}
		} else if c.cur+1 < len(c.opts) {
			c.cur++
			return true
		}
		ex.trail = ex.trail[:len(ex.trail)-1]
	}
	return false
}

func (ex *Exec) solverFail(what string, err error) {
	msg := what
	if err != nil {
		msg += ": " + err.Error()
	}
	panic(pathEnd{endSolver, msg})
}

// assertTerm sends (assert t) to the incremental solver.
func (ex *Exec) assertTerm(t *sym.Term) {
	ref := ex.pr.Inline(t)
	ex.z3.Send(ex.pr.Flush())
	ex.z3.Send("(assert " + ref + ")\n")
}

// SampleHook, when set (engine self-test), receives every SampleEvery-th
// query of every executor as a standalone script together with the verdict
// of the incremental solver. It must be safe for concurrent use.
var (
	SampleHook  func(script string, r solver.Result)
	SampleEvery = 1
)

// checkWith decides PC ∧ t. On sat the model is returned.
func (ex *Exec) checkWith(t *sym.Term) (solver.Result, *sym.Model) {
	ex.FeasQueries++
	ex.z3.Push()
	ex.assertTerm(t)
	r, err := ex.z3.Check()
	var m *sym.Model
	if err == nil && r == solver.Sat {
		m = sym.NewModel()
		// make sure all inputs are declared in this solver session
		for _, in := range ex.inputs {
			ex.pr.Ref(in)
		}
		ex.z3.Send(ex.pr.Flush())
		if e := ex.z3.GetValues(ex.inputs, m); e != nil {
			err = e
		}
	}
	ex.z3.Pop(1)
	if err != nil {
		ex.solverFail("feasibility query", err)
	}
	if err == nil && r != solver.Unknown && SampleHook != nil && ex.FeasQueries%int64(SampleEvery) == 0 {
		script, _ := ex.standalone(t)
		SampleHook(script, r)
	}
	if r == solver.Unknown && ex.ArithFallback {
		// decimal / index arithmetic that bit-blasting does not finish: one-shot
		// cvc5 with integer blasting on the standalone script of PC ∧ t
		r, m = ex.arithFallback(t)
		if r != solver.Unknown {
			ex.FallbackResolved++
		}
	}
	if r == solver.Unknown {
		ex.solverFail("solver answered unknown on a feasibility query", nil)
	}
	return r, m
}

const fallbackSlots = 5

var fallbackSem = make(chan struct{}, fallbackSlots)

// arithFallback decides PC ∧ t with a one-shot portfolio: z3 4.8.12 and z3 5.1
// with their full preprocessing (not available to the incremental solver)
// and cvc5 --solve-bv-as-int=sum; the first definite answer wins.
func (ex *Exec) arithFallback(t *sym.Term) (solver.Result, *sym.Model) {
	script, _ := ex.standalone(t)
	var sb strings.Builder
	sb.WriteString("(set-option :produce-models true)\n(set-logic ALL)\n")
	sb.WriteString(script)
	// make sure every input is declared (inputs not in the cone of influence are free)
	for _, in := range ex.inputs {
		if !strings.Contains(script, "(declare-const "+in.Name+" ") {
			fmt.Fprintf(&sb, "(declare-const %s %s)\n", in.Name, in.S)
		}
	}
	sb.WriteString("(check-sat)\n")
	if len(ex.inputs) > 0 {
		sb.WriteString("(get-value (")
		for _, in := range ex.inputs {
			sb.WriteString(in.Name + " ")
		}
		sb.WriteString("))\n")
	}
	ex.FallbackQueries++
	if d := os.Getenv("VERIF_DUMPQ"); d != "" {
		os.WriteFile(fmt.Sprintf("%s/q%d.smt2", d, ex.FallbackQueries), []byte(sb.String()), 0o644)
	}
	// at most fallbackSlots races at a time (three solver processes each), so
	// that the cap measures solver effort and not the load of the machine
	fallbackSem <- struct{}{}
	res := solver.Race([]solver.OneShot{solver.Z3Old, solver.Z3New, solver.CVC5Int}, sb.String(), 240*time.Second)
	<-fallbackSem
	ex.FallbackBy[res.Solver]++
	ex.FallbackTime += res.Dur
	out := strings.TrimSpace(res.Out)
	switch {
	case strings.HasPrefix(out, "unsat"):
		return solver.Unsat, nil
	case strings.HasPrefix(out, "sat"):
		m := sym.NewModel()
		rest := strings.TrimSpace(strings.TrimPrefix(out, "sat"))
		if rest != "" {
			if err := solver.ParseValues(rest, m); err != nil {
				return solver.Unknown, nil
			}
		}
		return solver.Sat, m
	}
	return solver.Unknown, nil
}

func (ex *Exec) setModel(m *sym.Model) {
	ex.model = m
	if m != nil {
		ex.eval = sym.NewEvaluator(ex.c, m)
	} else {
		ex.eval = nil
	}
}

// evalBool evaluates a condition under the cached model.
func (ex *Exec) evalBool(t *sym.Term) (val bool, ok bool) {
	if ex.eval == nil {
		return false, false
	}
	v, ok := ex.eval.Eval(t)
	return v == 1, ok
}

// branch chooses among conds (which must be exhaustive under the path
// condition); it forks over all feasible ones and returns the index taken
// on this execution.
func (ex *Exec) branch(conds []*sym.Term, tag string) int {
	if ex.pos < len(ex.trail) {
		// replay
		c := ex.trail[ex.pos]
		ex.pos++
		i := c.opts[c.cur]
		if i >= len(conds) {
			internalErr("replay mismatch: option %d of %d (tag %q)", i, len(conds), tag)
		}
		cond := conds[i]
		if !cond.IsTrue() {
			ex.pc = append(ex.pc, cond)
			if !c.asserted && (len(c.opts) > 1 || c.forced) {
				ex.z3.Push()
				ex.assertTerm(cond)
				c.asserted = true
			}
		}
		if ex.pos == len(ex.trail) {
			// last replayed entry: adopt its model (if known)
			if c.cur < len(c.models) && c.models[c.cur] != nil {
				ex.setModel(c.models[c.cur])
			} else if !cond.IsTrue() {
				ex.setModel(nil)
			}
		}
		if tag != "" {
			ex.res.Choices = append(ex.res.Choices, ChoiceRec{tag, i, len(conds)})
		}
		return i
	}
	if ex.cutDepth > 0 && len(ex.trail) >= ex.cutDepth {
		panic(pathEnd{endStop, "cut"})
	}
	// new decision
	c := &choice{tag: tag, n: len(conds)}
	for i, cond := range conds {
		if cond.IsFalse() {
			continue
		}
		if cond.IsTrue() {
			c.opts = append(c.opts, i)
			c.models = append(c.models, ex.model)
			continue
		}
		if v, ok := ex.evalBool(cond); ok && v {
			ex.ModelHits++
			c.opts = append(c.opts, i)
			c.models = append(c.models, ex.model)
			continue
		}
		r, m := ex.checkWith(cond)
		if r == solver.Sat {
			c.opts = append(c.opts, i)
			c.models = append(c.models, m)
		}
	}
	if len(c.opts) == 0 {
		// the path condition itself is unsatisfiable or conds not exhaustive
		if ex.model == nil {
			panic(pathEnd{endAssumeFalse, "no feasible branch (path condition unsatisfiable)"})
		}
		internalErr("no feasible option among %d (tag %q) although PC has a model", len(conds), tag)
	}
	ex.forks += len(c.opts) - 1
	if ex.forks > ex.MaxForks {
		panic(pathEnd{endBudget, "fork budget exceeded"})
	}
	ex.trail = append(ex.trail, c)
	ex.pos++
	i := c.opts[0]
	cond := conds[i]
	if !cond.IsTrue() {
		ex.pc = append(ex.pc, cond)
		if len(c.opts) > 1 {
			ex.z3.Push()
			ex.assertTerm(cond)
			c.asserted = true
		}
	}
	ex.setModel(c.models[0])
	if tag != "" {
		ex.res.Choices = append(ex.res.Choices, ChoiceRec{tag, i, len(conds)})
	}
	return i
}

// decide resolves a branch condition.
func (ex *Exec) decide(c *sym.Term) bool {
	if c.IsConst() {
		return c.Val == 1
	}
	// Switch dispatch over a table-valued tag: concretise the tag once so
	// that the following comparisons fold.
	if c.Op == sym.OEq || (c.Op == sym.ONot && c.Args[0].Op == sym.OEq) {
		e := c
		if c.Op == sym.ONot {
			e = c.Args[0]
		}
		var sel *sym.Term
		if e.Args[0].Op == sym.OSelect && e.Args[1].IsConst() {
			sel = e.Args[0]
		} else if e.Args[1].Op == sym.OSelect && e.Args[0].IsConst() {
			sel = e.Args[1]
		}
		if sel != nil {
			if kv, ok := ex.known(sel); ok {
				other := e.Args[0]
				if other == sel {
					other = e.Args[1]
				}
				r := kv == other.Val
				if c.Op == sym.ONot {
					r = !r
				}
				return r
			}
			v := ex.concretize(sel, "switch tag")
			other := e.Args[0]
			if other == sel {
				other = e.Args[1]
			}
			r := v == other.Val
			if c.Op == sym.ONot {
				r = !r
			}
			return r
		}
	}
	if v, ok := ex.rangeDecide(c); ok {
		return v
	}
	// a condition already decided on this path (hash-consed: the same term)
	// needs no further query
	if v, ok := ex.facts[c.ID]; ok {
		return v
	}
	nc := ex.c.Not(c)
	r := ex.branch([]*sym.Term{c, nc}, "") == 0
	ex.facts[c.ID] = r
	ex.facts[nc.ID] = !r
	return r
}

// known reports whether the path condition pins t to a constant through a
// previous concretisation.
func (ex *Exec) known(t *sym.Term) (uint64, bool) {
	v, ok := ex.knownVals[t.ID]
	return v, ok
}

// concretize forks over every feasible value of t (enumerated by the
// solver) and returns the value taken on this execution.
func (ex *Exec) concretize(t *sym.Term, what string) uint64 {
	if t.IsConst() {
		return t.Val
	}
	if v, ok := ex.known(t); ok {
		return v
	}
	var c *choice
	replay := ex.pos < len(ex.trail)
	if replay {
		c = ex.trail[ex.pos]
		if !c.enum {
			internalErr("replay mismatch: expected enumeration entry for %s", what)
		}
	} else {
		if ex.cutDepth > 0 && len(ex.trail) >= ex.cutDepth {
			panic(pathEnd{endStop, "cut"})
		}
		c = &choice{enum: true, opts: []int{0}}
		ex.trail = append(ex.trail, c)
	}
	ex.pos++
	if c.cur >= len(c.enumVals) {
		// need a fresh value: PC ∧ t ∉ enumVals
		if len(c.enumVals) >= 4096 {
			panic(pathEnd{endBudget, fmt.Sprintf("more than 4096 feasible values for %s", what)})
		}
		var m *sym.Model
		var v uint64
		found := false
		if len(c.enumVals) == 0 && ex.eval != nil {
			if x, ok := ex.eval.Eval(t); ok {
				v, m, found = x, ex.model, true
				ex.ModelHits++
			}
		}
		if !found {
			ne := ex.c.T
			for _, old := range c.enumVals {
				ne = ex.c.And(ne, ex.c.Not(ex.c.Eq(t, ex.c.Const(t.S, old))))
			}
			r, mm := ex.checkWith(ne)
			if r == solver.Unsat {
				c.enumDone = true
				// this execution has nothing to explore: drop the entry and move on
				if len(c.enumVals) == 0 {
					panic(pathEnd{endAssumeFalse, "no feasible value (path condition unsatisfiable)"})
				}
				// exhausted: backtrack further
				ex.trail = ex.trail[:ex.pos-1]
				panic(pathEnd{endStop, "enum-exhausted"})
			}
			m = mm
			x, ok := sym.NewEvaluator(ex.c, m).Eval(t)
			if !ok {
				ex.solverFail("cannot evaluate enumerated term under model", nil)
			}
			v = x
		}
		c.enumVals = append(c.enumVals, v)
		c.models = append(c.models, m)
		ex.forks++
		if ex.forks > ex.MaxForks {
			panic(pathEnd{endBudget, "fork budget exceeded"})
		}
	}
	v := c.enumVals[c.cur]
	eq := ex.c.Eq(t, ex.c.Const(t.S, v))
	ex.pc = append(ex.pc, eq)
	if !c.asserted {
		ex.z3.Push()
		ex.assertTerm(eq)
		c.asserted = true
	}
	if c.cur < len(c.models) && c.models[c.cur] != nil {
		ex.setModel(c.models[c.cur])
	} else {
		ex.setModel(nil)
	}
	ex.knownVals[t.ID] = v
	return v
}

// assume adds c to the path condition; an unsatisfiable assumption ends
// the path as vacuous.
func (ex *Exec) assume(c *sym.Term) {
	if c.IsTrue() {
		return
	}
	if c.IsFalse() {
		panic(pathEnd{endAssumeFalse, "assumption is false"})
	}
	// a single-option branch: feasibility is checked, the scope is popped on backtrack
	if ex.pos < len(ex.trail) {
		ch := ex.trail[ex.pos]
		ex.pos++
		ex.pc = append(ex.pc, c)
		if !ch.asserted {
			ex.z3.Push()
			ex.assertTerm(c)
			ch.asserted = true
		}
		if ex.pos == len(ex.trail) {
			if len(ch.models) > 0 && ch.models[0] != nil {
				ex.setModel(ch.models[0])
			} else {
				ex.setModel(nil)
			}
		}
		return
	}
	var m *sym.Model
	if v, ok := ex.evalBool(c); ok && v {
		m = ex.model
	} else {
		r, mm := ex.checkWith(c)
		if r == solver.Unsat {
			panic(pathEnd{endAssumeFalse, "assumption unsatisfiable on this path"})
		}
		m = mm
	}
	ch := &choice{opts: []int{0}, models: []*sym.Model{m}}
	ex.trail = append(ex.trail, ch)
	ex.pos++
	ex.pc = append(ex.pc, c)
	ex.z3.Push()
	ex.assertTerm(c)
	ch.asserted = true
	ex.setModel(m)
}

// ensureModel makes sure a model of the current path condition is cached.
func (ex *Exec) ensureModel() *sym.Model {
	if ex.model != nil {
		return ex.model
	}
	r, m := ex.checkWith(ex.c.T)
	if r != solver.Sat {
		panic(pathEnd{endAssumeFalse, "path condition unsatisfiable"})
	}
	ex.setModel(m)
	return m
}

// DumpPC renders the path condition as a standalone SMT script (debugging
// and second-solver cross checks).
func (ex *Exec) standalone(extra ...*sym.Term) (string, []*sym.Term) {
	all := append(append([]*sym.Term{}, ex.pc...), extra...)
	return sym.Standalone(ex.c, all)
}

func debugf(format string, args ...any) {
	if os.Getenv("VERIF_DEBUG") != "" {
		fmt.Fprintf(os.Stderr, format, args...)
	}
}

var _ = strings.TrimSpace

func addOv64(a, b int64) (int64, bool) {
	r := a + b
	if (a > 0 && b > 0 && r < 0) || (a < 0 && b < 0 && r >= 0) {
		return 0, true
	}
	return r, false
}

func mulOv64(a, b int64) (int64, bool) {
	if a == 0 || b == 0 {
		return 0, false
	}
	r := a * b
	if r/b != a || (a == -1 && b == -1<<63) || (b == -1 && a == -1<<63) {
		return 0, true
	}
	return r, false
}

// rangeOf returns a signed interval of t (as a mathematical integer equal
// to its signed AND, when non-negative, unsigned value) implied by the
// ranges recorded for input variables on this path. Only exact,
// non-wrapping arithmetic is followed.
func (ex *Exec) rangeOf(t *sym.Term) (lo, hi int64, ok bool) {
	if t.S.K != sym.KBV || t.S.W > 64 {
		return 0, 0, false
	}
	w := t.S.W
	fits := func(l, h int64) (int64, int64, bool) {
		// must be representable as a non-negative value of the width, or (for 64 bit) any int64
		if w < 64 && (l < 0 || h >= int64(1)<<w) {
			return 0, 0, false
		}
		return l, h, true
	}
	switch t.Op {
	case sym.OConst:
		if w == 64 {
			return int64(t.Val), int64(t.Val), true
		}
		return int64(t.Val), int64(t.Val), true
	case sym.OVar:
		if r, ok := ex.varRange[t.ID]; ok {
			return int64(r[0]), int64(r[1]), true
		}
	case sym.OZExt:
		l, h, ok := ex.rangeOf(t.Args[0])
		if ok && l >= 0 {
			return l, h, true
		}
	case sym.OSExt:
		l, h, ok := ex.rangeOf(t.Args[0])
		if ok && l >= 0 && h < int64(1)<<(t.Args[0].S.W-1) {
			return l, h, true
		}
	case sym.OAdd:
		al, ah, ok1 := ex.rangeOf(t.Args[0])
		bl, bh, ok2 := ex.rangeOf(t.Args[1])
		if ok1 && ok2 {
			l, o1 := addOv64(al, bl)
			h, o2 := addOv64(ah, bh)
			if !o1 && !o2 {
				return fits(l, h)
			}
		}
	case sym.OMul:
		al, ah, ok1 := ex.rangeOf(t.Args[0])
		bl, bh, ok2 := ex.rangeOf(t.Args[1])
		if ok1 && ok2 && al >= 0 && bl >= 0 {
			l, o1 := mulOv64(al, bl)
			h, o2 := mulOv64(ah, bh)
			if !o1 && !o2 {
				return fits(l, h)
			}
		}
	case sym.ONeg:
		if w == 64 {
			l, h, ok := ex.rangeOf(t.Args[0])
			if ok && l > -1<<63 {
				return -h, -l, true
			}
		}
	}
	return 0, 0, false
}

// rangeDecide decides comparisons that the recorded intervals settle.
func (ex *Exec) rangeDecide(c *sym.Term) (bool, bool) {
	if len(ex.varRange) == 0 {
		return false, false
	}
	neg := false
	for c.Op == sym.ONot {
		c = c.Args[0]
		neg = !neg
	}
	if c.N != 2 || c.Args[0].S.K != sym.KBV {
		return false, false
	}
	al, ah, ok1 := ex.rangeOf(c.Args[0])
	bl, bh, ok2 := ex.rangeOf(c.Args[1])
	if !ok1 || !ok2 {
		return false, false
	}
	unsignedOK := al >= 0 && bl >= 0
	res, known := false, false
	switch c.Op {
	case sym.OULe, sym.OSLe:
		if c.Op == sym.OULe && !unsignedOK {
			return false, false
		}
		if ah <= bl {
			res, known = true, true
		} else if al > bh {
			res, known = false, true
		}
	case sym.OULt, sym.OSLt:
		if c.Op == sym.OULt && !unsignedOK {
			return false, false
		}
		if ah < bl {
			res, known = true, true
		} else if al >= bh {
			res, known = false, true
		}
	case sym.OEq:
		if ah < bl || bh < al {
			res, known = false, true
		} else if al == ah && bl == bh && al == bl {
			res, known = true, true
		}
	}
	if !known {
		return false, false
	}
	return res != neg, true
}
