// Package exec is a path-forking symbolic executor for go/ssa.
//
// Control flow, pointers, lengths and dynamic types are concrete on every
// path; scalars (bool, integers, floats, the bytes of strings) are sym.Terms.
// Paths are explored depth first by re-execution from a decision trail;
// every branch feasibility and every assertion is decided by an SMT solver.
package exec

import (
	"fmt"
	"go/types"
	"strings"

	"golang.org/x/tools/go/ssa"

	"verif/engine/sym"
)

// Value is the boxed representation of a Go value:
//
//	*sym.Term   bool, integers, floats
//	Str         string
//	*Value      pointer (nil pointer = (*Value)(nil))
//	Struct      struct (copied on load/store)
//	Array       array (copied on load/store)
//	Slice       slice
//	Iface       interface
//	*Map        map
//	*Closure / *ssa.Function / *ssa.Builtin   func values (nil func = (*ssa.Function)(nil))
//	Tuple       multiple results
//	*Chan       channel (buffered, single goroutine: see Chan)
//	UnsafePtr   unsafe.Pointer carrying the typed pointer it was made from
type Value interface{}

type Struct []Value
type Array []Value
type Tuple []Value

type Slice struct {
	A []Value // A == nil for a nil slice; len(A), cap(A) are the Go slice's
}

type Iface struct {
	T types.Type // nil for the nil interface
	V Value
}

type Closure struct {
	Fn  *ssa.Function
	Env []Value
}

// Chan is a buffered channel used by one goroutine: sends fill the buffer,
// receives drain it; an operation that would block is an unsupported site.
type Chan struct {
	id       int
	capacity int
	buf      []Value
	closed   bool
}

type UnsafePtr struct {
	P    Value      // the original pointer value (*Value) or nil
	Elem types.Type // pointee type of the original pointer
	Sl   *Slice     // set when made from &slice header (layout puns)
}

// SymElemPtr is &base[idx] with a symbolic in-bounds index into a sequence
// of scalars. Loads become an ite chain; stores fork over the index.
type SymElemPtr struct {
	Base []Value
	Idx  *sym.Term
}

// Poison marks a global of a package whose initialiser was not executed.
type Poison struct{ what string }

// Str is a string with concrete length. If Sym is nil the content is S.
type Str struct {
	S      string
	Sym    []*sym.Term // one 8-bit term per byte
	Opaque bool        // produced by a formatting stub: bytes may not be inspected
}

func (s Str) Len() int {
	if s.Sym != nil {
		return len(s.Sym)
	}
	return len(s.S)
}

func (s Str) Concrete() bool {
	if s.Sym == nil {
		return true
	}
	for _, t := range s.Sym {
		if !t.IsConst() {
			return false
		}
	}
	return true
}

// Go returns the concrete Go string (caller must know Concrete()).
func (s Str) Go() string {
	if s.Sym == nil {
		return s.S
	}
	b := make([]byte, len(s.Sym))
	for i, t := range s.Sym {
		b[i] = byte(t.Val)
	}
	return string(b)
}

type mapEntry struct {
	id  int
	key Value
	val Value
}

// Map is an insertion-ordered association list; keys may be symbolic.
type Map struct {
	T       *types.Map
	entries []*mapEntry
	nextID  int
	epoch   int // path epoch of the last trail snapshot
}

type mapIter struct {
	m    *Map
	snap []*mapEntry
	i    int
}

type strIter struct {
	s Str
	i int
}

// ---------- control-flow signals (Go panics inside the executor) ----------

// targetPanic is a panic of the interpreted program.
type targetPanic struct {
	v    Value  // the panic value (an Iface)
	site string // where it was raised
	rt   bool   // runtime fault (as opposed to an explicit panic call)
}

// pathEnd aborts the current path.
type pathEnd struct {
	kind   endKind
	detail string
}

type endKind int

const (
	endAssumeFalse endKind = iota // assumption unsatisfiable: path is vacuous
	endUnsupported                // reached something the engine does not model
	endBudget                     // step / fork budget exceeded
	endInternal                   // engine invariant violated
	endSolver                     // solver unknown / error
	endStop                       // harness asked to stop this path (after a failed assertion with stop)
)

func (k endKind) String() string {
	return [...]string{"assume-false", "unsupported", "budget", "internal", "solver", "stop"}[k]
}

func unsupported(format string, args ...any) {
	panic(pathEnd{endUnsupported, fmt.Sprintf(format, args...)})
}

func internalErr(format string, args ...any) {
	panic(pathEnd{endInternal, fmt.Sprintf(format, args...)})
}

// ---------- type helpers ----------

func deref(t types.Type) types.Type {
	if p, ok := t.Underlying().(*types.Pointer); ok {
		return p.Elem()
	}
	panic(fmt.Sprintf("deref: not a pointer: %v", t))
}

// intInfo returns the bit width and signedness of an integer/bool basic type.
func intInfo(t types.Type) (w int, signed bool, ok bool) {
	b, isB := t.Underlying().(*types.Basic)
	if !isB {
		return 0, false, false
	}
	switch b.Kind() {
	case types.Int8:
		return 8, true, true
	case types.Int16:
		return 16, true, true
	case types.Int32:
		return 32, true, true
	case types.Int64, types.Int, types.UntypedInt:
		return 64, true, true
	case types.UntypedRune:
		return 32, true, true
	case types.Uint8:
		return 8, false, true
	case types.Uint16:
		return 16, false, true
	case types.Uint32:
		return 32, false, true
	case types.Uint64, types.Uint, types.Uintptr:
		return 64, false, true
	}
	return 0, false, false
}

func isFloat(t types.Type) (w int, ok bool) {
	b, isB := t.Underlying().(*types.Basic)
	if !isB {
		return 0, false
	}
	switch b.Kind() {
	case types.Float32:
		return 32, true
	case types.Float64, types.UntypedFloat:
		return 64, true
	}
	return 0, false
}

func isString(t types.Type) bool {
	b, ok := t.Underlying().(*types.Basic)
	return ok && b.Info()&types.IsString != 0
}

func isBool(t types.Type) bool {
	b, ok := t.Underlying().(*types.Basic)
	return ok && b.Info()&types.IsBoolean != 0
}

func isInterface(t types.Type) bool {
	_, ok := t.Underlying().(*types.Interface)
	return ok
}

// zero returns the zero value of type t.
func (ex *Exec) zero(t types.Type) Value {
	switch u := t.Underlying().(type) {
	case *types.Basic:
		if u.Kind() == types.UnsafePointer {
			return UnsafePtr{}
		}
		if u.Kind() == types.UntypedNil {
			return Iface{}
		}
		if isString(u) {
			return Str{}
		}
		if isBool(u) {
			return ex.c.F
		}
		if w, _, ok := intInfo(u); ok {
			return ex.c.Const(sym.BV(w), 0)
		}
		if w, ok := isFloat(u); ok {
			return ex.c.FConst(sym.FP(w), 0)
		}
		unsupported("zero value of basic type %v", t)
	case *types.Pointer:
		return (*Value)(nil)
	case *types.Struct:
		s := make(Struct, u.NumFields())
		for i := range s {
			s[i] = ex.zero(u.Field(i).Type())
		}
		return s
	case *types.Array:
		n := int(u.Len())
		a := make(Array, n)
		if n > 0 {
			z := ex.zero(u.Elem())
			switch z.(type) {
			case Struct, Array:
				a[0] = z
				for i := 1; i < n; i++ {
					a[i] = ex.zero(u.Elem())
				}
			default:
				for i := range a {
					a[i] = z
				}
			}
		}
		return a
	case *types.Slice:
		return Slice{}
	case *types.Interface:
		return Iface{}
	case *types.Map:
		return (*Map)(nil)
	case *types.Signature:
		return (*ssa.Function)(nil)
	case *types.Chan:
		return (*Chan)(nil)
	case *types.Tuple:
		if u.Len() == 1 {
			return ex.zero(u.At(0).Type())
		}
		tu := make(Tuple, u.Len())
		for i := range tu {
			tu[i] = ex.zero(u.At(i).Type())
		}
		return tu
	}
	unsupported("zero value of type %v", t)
	return nil
}

// copyVal copies aggregates (struct/array) so that loads and stores have
// value semantics; everything else is immutable or a reference.
func copyVal(v Value) Value {
	switch v := v.(type) {
	case Struct:
		n := make(Struct, len(v))
		for i, f := range v {
			n[i] = copyVal(f)
		}
		return n
	case Array:
		n := make(Array, len(v))
		for i, f := range v {
			n[i] = copyVal(f)
		}
		return n
	}
	return v
}

func (ex *Exec) typeString(t types.Type) string {
	if s, ok := ex.tstr[t]; ok {
		return s
	}
	s := types.TypeString(t, nil)
	ex.tstr[t] = s
	return s
}

func sameType(a, b types.Type) bool {
	if a == b {
		return true
	}
	if a == nil || b == nil {
		return false
	}
	return types.Identical(a, b)
}

// describe renders a value for diagnostics.
func describe(v Value) string {
	switch v := v.(type) {
	case nil:
		return "<nil-value>"
	case *sym.Term:
		if v.IsConst() {
			if v.S.K == sym.KFP {
				return fmt.Sprint(sym.FloatOf(v))
			}
			return fmt.Sprint(v.Val)
		}
		return fmt.Sprintf("<sym t%d>", v.ID)
	case Str:
		if v.Opaque {
			return "<opaque string>"
		}
		if v.Concrete() {
			return fmt.Sprintf("%q", v.Go())
		}
		return fmt.Sprintf("<sym string len %d>", v.Len())
	case Iface:
		if v.T == nil {
			return "nil"
		}
		return fmt.Sprintf("(%s)%s", types.TypeString(v.T, nil), describe(v.V))
	case Struct:
		var parts []string
		for _, f := range v {
			parts = append(parts, describe(f))
		}
		return "{" + strings.Join(parts, ",") + "}"
	case Slice:
		if len(v.A) > 8 {
			return fmt.Sprintf("<slice len %d>", len(v.A))
		}
		var parts []string
		for _, f := range v.A {
			parts = append(parts, describe(f))
		}
		return "[" + strings.Join(parts, ",") + "]"
	case *Value:
		if v == nil {
			return "nil-ptr"
		}
		return "&" + describe(*v)
	}
	return fmt.Sprintf("<%T>", v)
}
