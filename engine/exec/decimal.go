package exec

import (
	"fmt"
	"go/types"
	"strconv"

	"verif/engine/solver"
	"verif/engine/sym"
)

// Contract stubs for decimal formatting / parsing of symbolic numbers.
//
// strconv.FormatUint etc. on a symbolic value are not executed from source
// (the /100, %100 digit loops are out of reach of bit-blasting). Instead:
//
//  1. If the value is syntactically a Horner accumulation of input digit
//     bytes, ((d0*10+d1)*10+d2..., with di = uint64(bi-'0')), the result is
//     the bytes bi themselves, after the solver has confirmed on the current
//     path that every bi is a digit and (for more than one digit) the first
//     is not '0'. This is exact: it is the canonical decimal of the value.
//  2. Otherwise the length is case-split by magnitude and the result is a
//     string of fresh digit bytes constrained by Horner(digits) = value,
//     first digit non-zero: "the canonical decimal of x".

// valid reports whether PC ⇒ cond (decided by the solver).
func (ex *Exec) valid(cond *sym.Term) bool {
	if cond.IsTrue() {
		return true
	}
	if cond.IsFalse() {
		return false
	}
	neg := ex.c.Not(cond)
	if v, ok := ex.evalBool(neg); ok && v {
		return false
	}
	r, _ := ex.checkWith(neg)
	return r == solver.Unsat
}

// digitOf recognises uint64(b - '0') and returns b.
func (ex *Exec) digitOf(t *sym.Term) (*sym.Term, bool) {
	if t.Op == sym.OZExt && t.Args[0].Op == sym.OVar && t.Args[0].S.W == 4 {
		// vx.Digit: the byte is '0' + d
		return ex.c.BinBV(sym.OAdd, ex.c.Const(sym.BV(8), '0'), ex.c.ZExt(t.Args[0], 8)), true
	}
	if t.Op == sym.OZExt {
		t = t.Args[0]
	}
	if t.Op == sym.OSub && t.S.W == 8 && t.Args[1].IsConst() && t.Args[1].Val == '0' {
		return t.Args[0], true
	}
	return nil, false
}

// hornerBytes inverts a decimal accumulation syntactically.
func (ex *Exec) hornerBytes(x *sym.Term) ([]*sym.Term, bool) {
	var rev []*sym.Term
	t := x
	for {
		if t.IsConst() {
			if t.Val == 0 && len(rev) > 0 {
				break // 0*10+d folded away: nothing in front
			}
			s := strconv.FormatUint(t.Val, 10)
			for i := len(s) - 1; i >= 0; i-- {
				rev = append(rev, ex.c.Const(sym.BV(8), uint64(s[i])))
			}
			break
		}
		if b, ok := ex.digitOf(t); ok {
			rev = append(rev, b)
			break
		}
		if t.Op != sym.OAdd {
			return nil, false
		}
		a0, a1 := t.Args[0], t.Args[1]
		var mul, dig *sym.Term
		if b, ok := ex.digitOf(a1); ok && a0.Op == sym.OMul {
			mul, dig = a0, b
		} else if b, ok := ex.digitOf(a0); ok && a1.Op == sym.OMul {
			mul, dig = a1, b
		} else {
			return nil, false
		}
		var inner *sym.Term
		if mul.Args[1].IsConst() && mul.Args[1].Val == 10 {
			inner = mul.Args[0]
		} else if mul.Args[0].IsConst() && mul.Args[0].Val == 10 {
			inner = mul.Args[1]
		} else {
			return nil, false
		}
		rev = append(rev, dig)
		t = inner
	}
	if len(rev) == 0 || len(rev) > 19 {
		return nil, false
	}
	out := make([]*sym.Term, len(rev))
	for i := range rev {
		out[i] = rev[len(rev)-1-i]
	}
	// the solver confirms that every byte is a digit on this path
	c := ex.c
	ok := c.T
	for _, b := range out {
		ok = c.And(ok, c.And(c.Cmp(sym.OULe, c.Const(sym.BV(8), '0'), b), c.Cmp(sym.OULe, b, c.Const(sym.BV(8), '9'))))
	}
	if !ex.valid(ok) {
		return nil, false
	}
	// canonical form has no leading zeros
	for len(out) > 1 && ex.decide(c.Eq(out[0], c.Const(sym.BV(8), '0'))) {
		out = out[1:]
	}
	return out, true
}

var pow10u = func() []uint64 {
	p := []uint64{1}
	for i := 1; i < 20; i++ {
		p = append(p, p[i-1]*10)
	}
	return p
}()

// decimalOf returns the canonical decimal digits (ASCII byte terms) of the
// unsigned 64-bit value x.
func (ex *Exec) decimalOf(x *sym.Term) []*sym.Term {
	if d, ok := ex.decMemo[x.ID]; ok {
		return d // the canonical decimal of a value is unique: same digits every time
	}
	d := ex.decimalOf0(x)
	ex.decMemo[x.ID] = d
	return d
}

func (ex *Exec) decimalOf0(x *sym.Term) []*sym.Term {
	c := ex.c
	if x.IsConst() {
		s := strconv.FormatUint(x.Val, 10)
		out := make([]*sym.Term, len(s))
		for i := range out {
			out[i] = c.Const(sym.BV(8), uint64(s[i]))
		}
		return out
	}
	if x.S.W != 64 {
		x = c.ZExt(x, 64)
	}
	// 10^k + Horner of exactly k digits (FillBig's fraction trick): '1' followed by the digits
	if x.Op == sym.OAdd {
		for k := 0; k < 2; k++ {
			h, cst := x.Args[k], x.Args[1-k]
			if cst.IsConst() {
				for e := 1; e < 19; e++ {
					if cst.Val == pow10u[e] {
						if d, ok := ex.hornerBytesNoStrip(h, e); ok {
							return append([]*sym.Term{c.Const(sym.BV(8), '1')}, d...)
						}
					}
				}
			}
		}
	}
	if d, ok := ex.hornerBytes(x); ok {
		return d
	}
	// general case: split on the number of digits, fresh digits tied by Horner
	L := 20
	for k := 1; k < 20; k++ {
		if ex.decide(c.Cmp(sym.OULt, x, c.Const(sym.BV(64), pow10u[k]))) {
			L = k
			break
		}
	}
	out := make([]*sym.Term, L)
	acc := c.Const(sym.BV(72), 0)
	ten := c.Const(sym.BV(72), 10)
	for i := 0; i < L; i++ {
		d := ex.NewInput("fmtdigit", sym.BV(8))
		out[i] = d
		lo := uint64('0')
		if i == 0 && L > 1 {
			lo = '1'
		}
		ex.assume(c.And(c.Cmp(sym.OULe, c.Const(sym.BV(8), lo), d), c.Cmp(sym.OULe, d, c.Const(sym.BV(8), '9'))))
		acc = c.BinBV(sym.OAdd, c.BinBV(sym.OMul, acc, ten), c.ZExt(c.BinBV(sym.OSub, d, c.Const(sym.BV(8), '0')), 72))
	}
	ex.assume(c.Eq(acc, c.ZExt(x, 72)))
	return out
}

// hornerBytesNoStrip is hornerBytes for exactly k digits, leading zeros kept
// (a folded-away leading 0*10 shortens the chain: pad with '0').
func (ex *Exec) hornerBytesNoStrip(x *sym.Term, k int) ([]*sym.Term, bool) {
	save := ex.trail
	_ = save
	var rev []*sym.Term
	t := x
	for {
		if b, ok := ex.digitOf(t); ok {
			rev = append(rev, b)
			break
		}
		if t.IsConst() {
			if t.Val != 0 {
				return nil, false
			}
			break
		}
		if t.Op != sym.OAdd {
			return nil, false
		}
		a0, a1 := t.Args[0], t.Args[1]
		var mul, dig *sym.Term
		if b, ok := ex.digitOf(a1); ok && a0.Op == sym.OMul {
			mul, dig = a0, b
		} else if b, ok := ex.digitOf(a0); ok && a1.Op == sym.OMul {
			mul, dig = a1, b
		} else {
			return nil, false
		}
		var inner *sym.Term
		if mul.Args[1].IsConst() && mul.Args[1].Val == 10 {
			inner = mul.Args[0]
		} else if mul.Args[0].IsConst() && mul.Args[0].Val == 10 {
			inner = mul.Args[1]
		} else {
			return nil, false
		}
		rev = append(rev, dig)
		t = inner
	}
	if len(rev) != k {
		// a chain shorter than k can only come from constant folding of leading
		// zero digits, which does not happen for symbolic digits
		return nil, false
	}
	out := make([]*sym.Term, k)
	c := ex.c
	ok := c.T
	for i := range rev {
		b := rev[k-1-i]
		out[i] = b
		ok = c.And(ok, c.And(c.Cmp(sym.OULe, c.Const(sym.BV(8), '0'), b), c.Cmp(sym.OULe, b, c.Const(sym.BV(8), '9'))))
	}
	if !ex.valid(ok) {
		return nil, false
	}
	return out, true
}

// decimalOfSigned is decimalOf for int64 (leading '-').
func (ex *Exec) decimalOfSigned(x *sym.Term) []*sym.Term {
	c := ex.c
	if x.S.W != 64 {
		x = c.SExt(x, 64)
	}
	if x.IsConst() {
		s := strconv.FormatInt(int64(x.Val), 10)
		out := make([]*sym.Term, len(s))
		for i := range out {
			out[i] = c.Const(sym.BV(8), uint64(s[i]))
		}
		return out
	}
	if ex.decide(c.Cmp(sym.OSLt, x, c.Const(sym.BV(64), 0))) {
		var mag *sym.Term
		if x.Op == sym.ONeg {
			mag = x.Args[0]
		} else {
			mag = c.Neg(x)
		}
		return append([]*sym.Term{c.Const(sym.BV(8), '-')}, ex.decimalOf(mag)...)
	}
	return ex.decimalOf(x)
}

func termsToStr(ex *Exec, d []*sym.Term) Str { return ex.normStr(d) }

func installDecimal(ex *Exec) {
	E := ex.Externals
	base10 := func(ex *Exec, v Value, fn string) {
		if b := ex.concreteInt(v.(*sym.Term), "base"); b != 10 {
			unsupported("%s with base %d on a symbolic value", fn, b)
		}
	}
	toVals := func(d []*sym.Term) []Value {
		out := make([]Value, len(d))
		for i, t := range d {
			out[i] = t
		}
		return out
	}
	nativeBase := func(ex *Exec, x *sym.Term, basev Value, signed bool) (Str, bool) {
		if !x.IsConst() {
			return Str{}, false
		}
		b := ex.concreteInt(basev.(*sym.Term), "base")
		if signed {
			return Str{S: strconv.FormatInt(int64(sextTo64(x)), b)}, true
		}
		return Str{S: strconv.FormatUint(x.Val, b)}, true
	}
	E["strconv.FormatUint"] = func(ex *Exec, fr *frame, a []Value) Value {
		if s, ok := nativeBase(ex, a[0].(*sym.Term), a[1], false); ok {
			return s
		}
		base10(ex, a[1], "FormatUint")
		return termsToStr(ex, ex.decimalOf(a[0].(*sym.Term)))
	}
	E["strconv.FormatInt"] = func(ex *Exec, fr *frame, a []Value) Value {
		if s, ok := nativeBase(ex, a[0].(*sym.Term), a[1], true); ok {
			return s
		}
		base10(ex, a[1], "FormatInt")
		return termsToStr(ex, ex.decimalOfSigned(a[0].(*sym.Term)))
	}
	E["strconv.Itoa"] = func(ex *Exec, fr *frame, a []Value) Value {
		return termsToStr(ex, ex.decimalOfSigned(a[0].(*sym.Term)))
	}
	E["strconv.AppendInt"] = func(ex *Exec, fr *frame, a []Value) Value {
		x := a[1].(*sym.Term)
		var d []*sym.Term
		if s, ok := nativeBase(ex, x, a[2], true); ok {
			d = ex.strSym(s)
		} else {
			base10(ex, a[2], "AppendInt")
			d = ex.decimalOfSigned(x)
		}
		return ex.appendVals(a[0].(Slice), toVals(d), types.Typ[types.Uint8])
	}
	E["strconv.AppendUint"] = func(ex *Exec, fr *frame, a []Value) Value {
		x := a[1].(*sym.Term)
		var d []*sym.Term
		if s, ok := nativeBase(ex, x, a[2], false); ok {
			d = ex.strSym(s)
		} else {
			base10(ex, a[2], "AppendUint")
			d = ex.decimalOf(x)
		}
		return ex.appendVals(a[0].(Slice), toVals(d), types.Typ[types.Uint8])
	}
	// strconv.ParseFloat on symbolic text: an uninterpreted function of the
	// text (same text terms => same float variable). "Nearest float64" is
	// trusted to strconv; harnesses reason about the text via vx.FloatText.
	ex.ParseFloatStub = func(ex *Exec, fr *frame, s Str, bits int) Value {
		key := ""
		for _, t := range ex.strSym(s) {
			key += fmt.Sprintf("%d,", t.ID)
		}
		if ex.pfVars == nil {
			ex.pfVars = map[string]*sym.Term{}
			ex.pfText = map[int][]*sym.Term{}
		}
		v, ok := ex.pfVars[key]
		if !ok {
			v = ex.c.Var(fmt.Sprintf("pf_%d_f64", len(ex.pfVars)), sym.FP(64))
			ex.pfVars[key] = v
			ex.pfText[v.ID] = ex.strSym(s)
		}
		// syntax: decimal float literal (what FillBig and JSON produce)
		okSyn := ex.floatSyntaxOK(s)
		var ev Value = Iface{}
		if !okSyn {
			ev = ex.newError(Str{S: "strconv.ParseFloat: parsing: invalid syntax"})
		}
		return Tuple{v, ev}
	}
}

// floatSyntaxOK runs a small DFA for -?digits(.digits)?([eE][+-]?digits)? over
// possibly symbolic bytes (forks only where the path condition leaves the
// class of a byte open). Range errors are not modelled (callers ignore them).
func (ex *Exec) floatSyntaxOK(s Str) bool {
	c := ex.c
	b := ex.strSym(s)
	isDigit := func(t *sym.Term) bool {
		return ex.decide(c.And(c.Cmp(sym.OULe, c.Const(sym.BV(8), '0'), t), c.Cmp(sym.OULe, t, c.Const(sym.BV(8), '9'))))
	}
	is := func(t *sym.Term, ch byte) bool { return ex.decide(c.Eq(t, c.Const(sym.BV(8), uint64(ch)))) }
	i, n := 0, len(b)
	if i < n && (is(b[i], '-') || is(b[i], '+')) {
		i++
	}
	nd := 0
	for i < n && isDigit(b[i]) {
		i++
		nd++
	}
	if i < n && is(b[i], '.') {
		i++
		for i < n && isDigit(b[i]) {
			i++
			nd++
		}
	}
	if nd == 0 {
		return false
	}
	if i < n && (is(b[i], 'e') || is(b[i], 'E')) {
		i++
		if i < n && (is(b[i], '-') || is(b[i], '+')) {
			i++
		}
		ne := 0
		for i < n && isDigit(b[i]) {
			i++
			ne++
		}
		if ne == 0 {
			return false
		}
	}
	return i == n
}
