package exec

import (
	"go/types"
	"reflect"

	"verif/engine/sym"
)

// A kind-level model of package reflect: enough for the fall-back arms of
// ojg's type switches, which ask reflect for the Kind of a value they do
// not handle directly and then give up. Anything deeper (field access,
// MapIndex, Convert, ...) has no model and ends the path as unsupported.

// RTypeVal is a *reflect.rtype.
type RTypeVal struct{ T types.Type }

func (ex *Exec) rtypePtrType() types.Type {
	if ex.rtypeT == nil {
		pkg := ex.Prog.ImportedPackage("reflect")
		if pkg == nil {
			unsupported("reflect not loaded")
		}
		ex.rtypeT = types.NewPointer(pkg.Type("rtype").Type())
	}
	return ex.rtypeT
}

func kindOf(t types.Type) reflect.Kind {
	switch u := t.Underlying().(type) {
	case *types.Basic:
		switch u.Kind() {
		case types.Bool:
			return reflect.Bool
		case types.Int:
			return reflect.Int
		case types.Int8:
			return reflect.Int8
		case types.Int16:
			return reflect.Int16
		case types.Int32:
			return reflect.Int32
		case types.Int64:
			return reflect.Int64
		case types.Uint:
			return reflect.Uint
		case types.Uint8:
			return reflect.Uint8
		case types.Uint16:
			return reflect.Uint16
		case types.Uint32:
			return reflect.Uint32
		case types.Uint64:
			return reflect.Uint64
		case types.Uintptr:
			return reflect.Uintptr
		case types.Float32:
			return reflect.Float32
		case types.Float64:
			return reflect.Float64
		case types.Complex64:
			return reflect.Complex64
		case types.Complex128:
			return reflect.Complex128
		case types.String:
			return reflect.String
		case types.UnsafePointer:
			return reflect.UnsafePointer
		}
	case *types.Pointer:
		return reflect.Ptr
	case *types.Slice:
		return reflect.Slice
	case *types.Array:
		return reflect.Array
	case *types.Map:
		return reflect.Map
	case *types.Struct:
		return reflect.Struct
	case *types.Interface:
		return reflect.Interface
	case *types.Signature:
		return reflect.Func
	case *types.Chan:
		return reflect.Chan
	}
	return reflect.Invalid
}

func installReflect(ex *Exec) {
	E := ex.Externals
	c := ex.c
	kindTerm := func(k reflect.Kind) *sym.Term { return c.Const(sym.BV(64), uint64(k)) }
	mkType := func(ex *Exec, t types.Type) Value {
		if t == nil {
			return Iface{}
		}
		return Iface{T: ex.rtypePtrType(), V: RTypeVal{t}}
	}
	// reflect.Value is modelled as Struct{RTypeVal | nil-ptr, boxed Iface | UnsafePtr{}, flag}
	mkValue := func(ex *Exec, iv Iface) Value {
		if iv.T == nil {
			return ex.zero(ex.Prog.ImportedPackage("reflect").Type("Value").Type())
		}
		return Struct{RTypeVal{iv.T}, iv, c.Const(sym.BV(64), uint64(kindOf(iv.T)))}
	}
	valT := func(fr *frame, v Value) (types.Type, Iface, bool) {
		s, ok := v.(Struct)
		if !ok || len(s) != 3 {
			unsupported("reflect.Value of unexpected shape")
		}
		rt, ok := s[0].(RTypeVal)
		if !ok {
			return nil, Iface{}, false
		}
		iv, _ := s[1].(Iface)
		return rt.T, iv, true
	}
	E["reflect.ValueOf"] = func(ex *Exec, fr *frame, a []Value) Value { return mkValue(ex, a[0].(Iface)) }
	E["reflect.TypeOf"] = func(ex *Exec, fr *frame, a []Value) Value { return mkType(ex, a[0].(Iface).T) }
	E["(reflect.Value).Type"] = func(ex *Exec, fr *frame, a []Value) Value {
		t, _, ok := valT(fr, a[0])
		if !ok {
			ex.rtPanic(fr, "reflect: call of reflect.Value.Type on zero Value")
		}
		return mkType(ex, t)
	}
	E["(reflect.Value).Kind"] = func(ex *Exec, fr *frame, a []Value) Value {
		t, _, ok := valT(fr, a[0])
		if !ok {
			return kindTerm(reflect.Invalid)
		}
		return kindTerm(kindOf(t))
	}
	E["(reflect.Value).IsValid"] = func(ex *Exec, fr *frame, a []Value) Value {
		_, _, ok := valT(fr, a[0])
		return c.Bool(ok)
	}
	E["(reflect.Value).CanInterface"] = func(ex *Exec, fr *frame, a []Value) Value {
		_, _, ok := valT(fr, a[0])
		if !ok {
			ex.rtPanic(fr, "reflect: call of reflect.Value.CanInterface on zero Value")
		}
		return c.T
	}
	E["(reflect.Value).Interface"] = func(ex *Exec, fr *frame, a []Value) Value {
		_, iv, ok := valT(fr, a[0])
		if !ok {
			ex.rtPanic(fr, "reflect: call of reflect.Value.Interface on zero Value")
		}
		return iv
	}
	E["(reflect.Value).IsNil"] = func(ex *Exec, fr *frame, a []Value) Value {
		_, iv, ok := valT(fr, a[0])
		if !ok {
			ex.rtPanic(fr, "reflect: call of reflect.Value.IsNil on zero Value")
		}
		switch x := iv.V.(type) {
		case *Value:
			return c.Bool(x == nil)
		case *Map:
			return c.Bool(x == nil)
		case Slice:
			return c.Bool(x.A == nil)
		case *Chan:
			return c.Bool(x == nil)
		case Iface:
			return c.Bool(x.T == nil)
		}
		if isNilFunc(iv.V) {
			return c.T
		}
		ex.rtPanic(fr, "reflect: call of reflect.Value.IsNil on non-nillable Value")
		return nil
	}
	E["(reflect.Value).Len"] = func(ex *Exec, fr *frame, a []Value) Value {
		_, iv, ok := valT(fr, a[0])
		if !ok {
			ex.rtPanic(fr, "reflect: call of reflect.Value.Len on zero Value")
		}
		switch x := iv.V.(type) {
		case Slice:
			return c.Const(sym.BV(64), uint64(len(x.A)))
		case Array:
			return c.Const(sym.BV(64), uint64(len(x)))
		case Str:
			return c.Const(sym.BV(64), uint64(x.Len()))
		case *Map:
			if x == nil {
				return c.Const(sym.BV(64), 0)
			}
			return c.Const(sym.BV(64), uint64(len(x.entries)))
		}
		ex.rtPanic(fr, "reflect: call of reflect.Value.Len on unsupported Value")
		return nil
	}
	E["(reflect.Value).Index"] = func(ex *Exec, fr *frame, a []Value) Value {
		t, iv, ok := valT(fr, a[0])
		if !ok {
			ex.rtPanic(fr, "reflect: call of reflect.Value.Index on zero Value")
		}
		i := ex.concreteInt(a[1].(*sym.Term), "reflect Index")
		var et types.Type
		var elems []Value
		switch u := t.Underlying().(type) {
		case *types.Slice:
			et, elems = u.Elem(), iv.V.(Slice).A
		case *types.Array:
			et, elems = u.Elem(), []Value(iv.V.(Array))
		default:
			unsupported("reflect.Value.Index on %v", t)
		}
		if i < 0 || i >= len(elems) {
			ex.rtPanic(fr, "reflect: slice index out of range")
		}
		e := elems[i]
		if isInterface(et) {
			// a Value of interface kind; ojg immediately calls Interface() on it
			return Struct{RTypeVal{et}, e.(Iface), c.Const(sym.BV(64), uint64(reflect.Interface))}
		}
		return Struct{RTypeVal{et}, Iface{T: et, V: copyVal(e)}, c.Const(sym.BV(64), uint64(kindOf(et)))}
	}
	E["(reflect.Value).Elem"] = func(ex *Exec, fr *frame, a []Value) Value {
		t, iv, ok := valT(fr, a[0])
		if !ok {
			ex.rtPanic(fr, "reflect: call of reflect.Value.Elem on zero Value")
		}
		switch u := t.Underlying().(type) {
		case *types.Pointer:
			p, _ := iv.V.(*Value)
			if p == nil {
				return ex.zero(ex.Prog.ImportedPackage("reflect").Type("Value").Type())
			}
			return Struct{RTypeVal{u.Elem()}, Iface{T: u.Elem(), V: copyVal(*p)}, c.Const(sym.BV(64), uint64(kindOf(u.Elem())))}
		case *types.Interface:
			inner, _ := iv.V.(Iface)
			if iv.T != nil && !isInterface(iv.T) {
				inner = iv
			}
			return mkValue(ex, inner)
		}
		unsupported("reflect.Value.Elem on %v", t)
		return nil
	}
	rt := func(v Value) types.Type {
		r, ok := v.(RTypeVal)
		if !ok {
			unsupported("reflect.Type method on unexpected receiver %T", v)
		}
		return r.T
	}
	E["(*reflect.rtype).Kind"] = func(ex *Exec, fr *frame, a []Value) Value { return kindTerm(kindOf(rt(a[0]))) }
	E["(*reflect.rtype).String"] = func(ex *Exec, fr *frame, a []Value) Value { return Str{S: types.TypeString(rt(a[0]), nil)} }
	E["(*reflect.rtype).Name"] = func(ex *Exec, fr *frame, a []Value) Value {
		if n, ok := rt(a[0]).(*types.Named); ok {
			return Str{S: n.Obj().Name()}
		}
		if b, ok := rt(a[0]).(*types.Basic); ok {
			return Str{S: b.Name()}
		}
		return Str{}
	}
	E["(*reflect.rtype).Elem"] = func(ex *Exec, fr *frame, a []Value) Value {
		switch u := rt(a[0]).Underlying().(type) {
		case *types.Pointer:
			return mkType(ex, u.Elem())
		case *types.Slice:
			return mkType(ex, u.Elem())
		case *types.Array:
			return mkType(ex, u.Elem())
		case *types.Map:
			return mkType(ex, u.Elem())
		case *types.Chan:
			return mkType(ex, u.Elem())
		}
		ex.rtPanic(fr, "reflect: Elem of invalid type")
		return nil
	}
	E["(*reflect.rtype).Key"] = func(ex *Exec, fr *frame, a []Value) Value {
		if m, ok := rt(a[0]).Underlying().(*types.Map); ok {
			return mkType(ex, m.Key())
		}
		ex.rtPanic(fr, "reflect: Key of non-map type")
		return nil
	}
	E["(*reflect.rtype).ConvertibleTo"] = func(ex *Exec, fr *frame, a []Value) Value {
		other := a[1].(Iface)
		return c.Bool(types.ConvertibleTo(rt(a[0]), rt(other.V)))
	}
	E["(*reflect.rtype).Comparable"] = func(ex *Exec, fr *frame, a []Value) Value {
		return c.Bool(types.Comparable(rt(a[0])))
	}
}
